"""C04: ufuncs apply element-wise after NumPy-right / tree-left broadcasting.

implementation : the REAL Python layer of /repo (highlevel.py operators, _connect/_numpy.array_ufunc,
                 _util.broadcast_and_apply/apply/broadcast_pack/unpack, operations/structure.broadcast_arrays) running
                 under pyshim (/verif/harness/py_c04.py, /venv/bin/python) on top of the libawkward rebuilt from /repo
                 (compact_offsets64, broadcast_tooffsets64, RegularArray_broadcast_tooffsets(+_size1), toRegularArray,
                 project, bytemask, carry ... through .build/std/pydrv)
model + spec   : c04/coq/Broadcast.v (transcription of apply) and BroadcastSpec.v (value-level specification),
                 extracted into .build/c04/bcastrun
voters         : (1) implementation, (2) extracted model, (3) extracted specification, (4) the Python transcription of
                 the specification in this file (pyspec, evaluated on the generator's own (type, value) pairs),
                 (5) plain NumPy on rectilinear inputs (inside py_c04.py, ndarrays built from the case text)
"""
import binascii
import json
import os
import re
import subprocess
import time

import common as C
import gen as G

THEOREMS = ['scalar_broadcasts', 'none_propagates', 'length_mismatch_errors', 'spec_result_has_deepest_structure',
            # model = specification (refinement) on the fragment jag, two array inputs (Proofs_C04_Model1..6.v)
            'model_refines_spec', 'model_refines_spec_strong', 'model_never_out_of_fuel',
            'broadcast_refines_spec_partial', 'size1_vs_size0_differs',
            # widened (Proofs_C04_Scal*.v, _Opt*.v, _Probes.v): one array + scalars; all option encodings at the top node
            'scalars_refine_spec', 'scalars_refine_spec_strong', 'broadcast_scalars_refines_spec_partial', 'broadcast_scalars_never_out_of_fuel', 'option_encodings_refine_spec_partial', 'option_encodings_refine_spec_strong_partial', 'option_encodings_scalars_refine_spec_partial', 'regular_level_no_left_broadcast_refuted', 'regular_inner_size1_vs_size0_refuted']
DRIVERS = ('pydrv',)
COQ_DIR = '/verif/c04/coq'
COQ_LOGICAL = '-R /verif/coq AwkV -R . AwkBroadcast'
CORPUS = os.path.join(C.VERIF, 'corpus', 'C04')
B = os.path.join(C.BUILD, 'c04')
PY = '/venv/bin/python'
RUNNER = os.path.join(C.VERIF, 'harness', 'py_c04.py')
ENV_SKIPS = os.path.join(C.VERIF, 'c04', 'env_skips.json')

RULE = ('tuples of 1-3 arguments derived value-first from one master (type, value): same structure re-encoded (ListOffset/'
        'ListArray x 32/U32/64 x offset origin x gaps/shuffles, Regular nodes or n-d NumpyArray, IndexedArray wrappers, '
        'five option encodings, EmptyArray leaves); shallower arguments (tree-left); all-regular shapes with missing '
        'leading dimensions and size-1 dimensions (NumPy-right); size-1 regular dimensions against variable ones; Python '
        'scalars; options inserted/removed at any level of any argument; records with equal (permuted) keys, records vs '
        'non-records, differing keys; deliberately mutated list lengths / regular sizes / array lengths (error half) x '
        '13 ufuncs + 11 operators + clip (3 inputs) + ak.broadcast_arrays output k. non-trivial = >= 2 array/scalar '
        'arguments or a unary case, with >= 1 leaf in the result or an error; distinct by case text')
ASSUMPTIONS = [
    'integer-valued leaves in [-9, 9] (also in float arrays): every result is exact in every dtype used; NumPy dtype '
    'promotion is observed only as bool vs number; unsigned dtypes are not combined with subtract/negative or negative scalars',
    'NumPy refuses subtract/negative on booleans (TypeError): not generated for all-bool (or unknown-type) arguments',
    'custom behaviours / overloads (ak.behavior), __array__/__record__ parameters, strings (string equality), '
    'datetime/timedelta and complex leaves, matmul, ufunc methods other than __call__, out=, partitioned and virtual '
    'arrays are outside the model and are not generated',
    'unions: handled by the Python transcription of the specification only (value level, per element); the Rocq model '
    'and specification skip them (named gap)',
    'at a level where every remaining argument structure is regular the implementation aligns the remaining dimensions '
    'to the right even below variable-length lists; the specification follows that (the documentation only speaks '
    'about whole arrays)',
    'records without fields are not generated (apply() cannot determine the number of outputs)',
    'the result is compared as a nested value (to_list of the dumped layout computed by the extracted Rocq to_list and '
    'by the evaluator in this file); regular-vs-variable result dimensions are compared only by the NumPy voter (shape)',
]
TRUSTED_BASE = [
    'Rocq kernel: coqc 8.16.1; theorems in c04/coq/Props_C04.v closed under the global context (parsed on this run)',
    'extraction: ExtrOcamlBasic only, Z/positive/nat inductive; OCaml 4.13.1; reader/printer c04/ocaml/{sx,rd,bcastrun}.ml',
    'pyshim (/verif/pyshim, Python substitute of awkward._ext forwarding every computing method to the rebuilt '
    'libawkward via impl/drv/pydrv.cpp) and harness/py_c04.py (layout text <-> pyshim nodes)',
    'generators, Python transcription of the specification, verdict logic in harness/props/c04.py and bcastrun.ml',
    'RapidJSON substitute impl/rapidjson_shim; NumPy %s / Python 3.12 of /venv as the fifth voter and as the ufunc '
    'engine the 2021 code runs on (differences recorded as env-skip)',
    'model vs code: Broadcast.v is a hand-written model of _util.apply and of the C++ normalisers, tied by differential '
    'testing only',
]

NUM_DT = ['int64'] * 6 + ['float64'] * 2 + ['int32', 'int16', 'int8', 'float32', 'uint8']
UNSIGNED = {'uint8', 'uint16', 'uint32', 'uint64'}
CMP = ['less', 'less_equal', 'greater', 'greater_equal', 'equal', 'not_equal']
UNARY = ['negative', 'absolute', 'op_neg', 'op_abs', 'proj0']
BINARY = (['add', 'subtract', 'multiply', 'maximum', 'minimum'] * 2 + CMP +
          ['op_add', 'op_sub', 'op_mul', 'op_lt', 'op_le', 'op_gt', 'op_ge', 'op_eq', 'op_ne'] + ['proj0', 'proj1'] * 2)
TERNARY = ['clip3', 'clip3', 'proj0', 'proj1', 'proj2']
CANON = {'op_add': 'add', 'op_sub': 'subtract', 'op_mul': 'multiply', 'op_neg': 'negative', 'op_abs': 'absolute',
         'op_lt': 'less', 'op_le': 'less_equal', 'op_gt': 'greater', 'op_ge': 'greater_equal', 'op_eq': 'equal',
         'op_ne': 'not_equal'}


# ---------------------------------------------------------------------------------------------- build
def build():
    r = C.sh('cd %s && ([ -f Makefile.coq ] && [ Makefile.coq -nt _CoqProject ] || coq_makefile -f _CoqProject -o Makefile.coq) '
             '>/dev/null 2>&1 && timeout 2400 make -f Makefile.coq -j8 2>&1 | tail -30' % COQ_DIR)
    if r.returncode != 0 or 'Error' in r.stdout:
        raise C.BuildError('C04 Rocq build failed:\n' + r.stdout[-3000:])
    r = C.sh('make -s -C %s/c04/ocaml VERIF=%s' % (C.VERIF, C.VERIF))
    if r.returncode != 0 or not os.path.exists(os.path.join(B, 'bcastrun')):
        raise C.BuildError('bcastrun build failed:\n' + r.stdout[-3000:])


# ---------------------------------------------------------------------------------------------- types and values
# element types:  ('leaf', dtype) | ('unk',) | ('var', T) | ('reg', size, T) | ('opt', T) | ('rec', [(name, T)], istuple)
#                 | ('union', [T...])
# values       :  int / bool | list | None | ('$rec', [v...]) | ('$un', i, v)
# an argument  :  dict(kind='arr', T=element type, vals=[...])  |  dict(kind='scalar', value=int)

def is_list(T):
    return T[0] in ('var', 'reg')


def elem(T):
    return T[1] if T[0] == 'var' else T[2]


def pure_regular(T):
    """C++ purelist_isregular of the form (records count as regular leaves, as RecordForm does)"""
    k = T[0]
    if k in ('leaf', 'unk', 'rec'):
        return True
    if k == 'var':
        return False
    if k == 'reg':
        return pure_regular(T[2])
    if k == 'opt':
        return pure_regular(T[1])
    if k == 'union':
        return all(pure_regular(a) for a in T[1])
    raise ValueError(T)


def rdepth(T):
    """number of list levels seen by purelist_depth (element level: leaf = 0); None for unions of unequal depth"""
    k = T[0]
    if k in ('leaf', 'unk', 'rec'):
        return 0
    if k in ('var', 'reg'):
        d = rdepth(elem(T))
        return None if d is None else d + 1
    if k == 'opt':
        return rdepth(T[1])
    if k == 'union':
        ds = set(rdepth(a) for a in T[1])
        return ds.pop() if len(ds) == 1 else None
    raise ValueError(T)


def has_kind(T, kind):
    if T[0] == kind:
        return True
    if T[0] == 'var' or T[0] == 'opt':
        return has_kind(T[1], kind)
    if T[0] == 'reg':
        return has_kind(T[2], kind)
    if T[0] == 'rec':
        return any(has_kind(ft, kind) for _, ft in T[1])
    if T[0] == 'union':
        return any(has_kind(a, kind) for a in T[1])
    return False


def leaf_dtypes(T):
    if T[0] == 'leaf':
        return [T[1]]
    if T[0] == 'unk':
        return ['bool']
    if T[0] == 'var' or T[0] == 'opt':
        return leaf_dtypes(T[1])
    if T[0] == 'reg':
        return leaf_dtypes(T[2])
    if T[0] == 'rec':
        return [d for _, ft in T[1] for d in leaf_dtypes(ft)]
    if T[0] == 'union':
        return [d for a in T[1] for d in leaf_dtypes(a)]
    return []


# ---------------------------------------------------------------------------------------------- the specification (Python)
class BErr(Exception):
    """the specified outcome is an error (ValueError/RuntimeError class)"""


class Unspecified(Exception):
    """outside what the specification decides (NumPy's own refusals: bool subtract/negative ...)"""


def leaf_kind(T):
    return 'b' if (T[0] == 'unk' or T[1] == 'bool') else 'n'


def ufunc_leaf(name, kinds, xs):
    """the leaf action: kinds 'b'/'n', xs integers (bool as 0/1); returns (kind, value)"""
    name = CANON.get(name, name)
    allb = all(k == 'b' for k in kinds)
    if name.startswith('proj'):
        i = int(name[4:])
        return kinds[i], xs[i]
    if name == 'add':
        return ('b', 1 if any(xs) else 0) if allb else ('n', sum(xs))
    if name == 'subtract':
        if allb:
            raise Unspecified('bool subtract')
        return 'n', xs[0] - xs[1]
    if name == 'multiply':
        return ('b', 1 if all(xs) else 0) if allb else ('n', xs[0] * xs[1])
    if name == 'negative':
        if allb:
            raise Unspecified('bool negative')
        return 'n', -xs[0]
    if name == 'absolute':
        return ('b', xs[0]) if allb else ('n', abs(xs[0]))
    if name == 'maximum':
        return ('b' if allb else 'n'), max(xs)
    if name == 'minimum':
        return ('b' if allb else 'n'), min(xs)
    if name in CMP:
        a, b = xs
        r = {'less': a < b, 'less_equal': a <= b, 'greater': a > b, 'greater_equal': a >= b, 'equal': a == b,
             'not_equal': a != b}[name]
        return 'b', 1 if r else 0
    if name == 'clip3':
        if allb:
            raise Unspecified('bool clip')
        return 'n', min(max(xs[0], xs[1]), xs[2])
    raise KeyError(name)


def arity(name):
    name = CANON.get(name, name)
    if name in ('negative', 'absolute'):
        return 1
    if name == 'clip3':
        return 3
    if name.startswith('proj'):
        return None
    return 2


def pad_reg1(T, v, k):
    for _ in range(k):
        T, v = ('reg', 1, T), [v]
    return T, v


def pad_reg1_t(T, k):
    for _ in range(k):
        T = ('reg', 1, T)
    return T


def target_size(sizes):
    """NumPy rule for one dimension: all sizes equal, size-1 repeats (also to 0)"""
    others = set(s for s in sizes if s != 1)
    if len(others) > 1:
        raise BErr('regular sizes %s' % sorted(sizes))
    return others.pop() if others else 1


def spec_type(Ts, name, allow_rec):
    """type-level pass: the errors that are decided by the types alone, and the result's element type"""
    if any(is_list(T) for T in Ts) and all(pure_regular(T) for T in Ts):
        ds = [rdepth(T) for T in Ts]
        if None in ds:
            raise Unspecified('union of different depths among regular arguments')
        md = max(ds)
        Ts = [pad_reg1_t(T, md - d) for T, d in zip(Ts, ds)]
    if any(T[0] == 'union' for T in Ts):
        outs = []
        alts = [[a for a in T[1]] if T[0] == 'union' else [T] for T in Ts]
        import itertools
        for combo in itertools.product(*alts):
            outs.append(spec_type(list(combo), name, allow_rec))
        return ('union', outs)
    if any(T[0] == 'opt' for T in Ts):
        return ('opt', spec_type([T[1] if T[0] == 'opt' else T for T in Ts], name, allow_rec))
    if any(is_list(T) for T in Ts):
        lists = [T for T in Ts if is_list(T)]
        nxt = [elem(T) if is_list(T) else T for T in Ts]
        if all(T[0] == 'reg' for T in lists):
            size = target_size([T[1] for T in lists])
            return ('reg', size, spec_type(nxt, name, allow_rec))
        return ('var', spec_type(nxt, name, allow_rec))
    if any(T[0] == 'rec' for T in Ts):
        if not allow_rec:
            raise BErr('records in a ufunc')
        recs = [T for T in Ts if T[0] == 'rec']
        keys = [n for n, _ in recs[0][1]]
        for R in recs[1:]:
            if set(n for n, _ in R[1]) != set(keys) or len(R[1]) != len(keys):
                raise BErr('record keys differ')
        if not keys:
            raise Unspecified('record without fields')
        istuple = all(R[2] for R in recs)
        fields = []
        for key in keys:
            fields.append((key, spec_type([dict(T[1])[key] if T[0] == 'rec' else T for T in Ts], name, allow_rec)))
        return ('rec', fields, istuple)
    kinds = [leaf_kind(T) for T in Ts]
    k, _ = ufunc_leaf(name, kinds, [1] * len(kinds))
    return ('leaf', 'bool' if k == 'b' else 'int64')


def spec_value(args, name):
    """element-level pass; args = [(T, v)]; assumes spec_type succeeded on these types"""
    Ts = [T for T, _ in args]
    if any(is_list(T) for T in Ts) and all(pure_regular(T) for T in Ts):
        ds = [rdepth(T) for T in Ts]
        md = max(ds)
        args = [pad_reg1(T, v, md - d) for (T, v), d in zip(args, ds)]
        Ts = [T for T, _ in args]
    if any(T[0] == 'union' for T in Ts):
        return spec_value([(T[1][v[1]], v[2]) if T[0] == 'union' else (T, v) for T, v in args], name)
    if any(T[0] == 'opt' for T in Ts):
        if any(T[0] == 'opt' and v is None for T, v in args):
            return None
        return spec_value([(T[1], v) if T[0] == 'opt' else (T, v) for T, v in args], name)
    if any(is_list(T) for T in Ts):
        lists = [(T, v) for T, v in args if is_list(T)]
        if all(T[0] == 'reg' for T, _ in lists):
            n = target_size([T[1] for T, _ in lists])
        else:
            n = len([v for T, v in lists if T[0] == 'var'][0])
        cols = []
        for T, v in args:
            if not is_list(T):
                cols.append([(T, v)] * n)
            elif T[0] == 'reg' and T[1] == 1 and not (len(v) == n and n == 1):
                cols.append([(T[2], v[0])] * n)
            else:
                if len(v) != n:
                    raise BErr('list lengths %d and %d differ' % (len(v), n))
                cols.append([(elem(T), x) for x in v])
        return [spec_value([col[i] for col in cols], name) for i in range(n)]
    if any(T[0] == 'rec' for T in Ts):
        recs = [(T, v) for T, v in args if T[0] == 'rec']
        keys = [n for n, _ in recs[0][0][1]]
        out = []
        for key in keys:
            sub = []
            for T, v in args:
                if T[0] == 'rec':
                    i = [n for n, _ in T[1]].index(key)
                    sub.append((T[1][i][1], rec_field(v, i)))
                else:
                    sub.append((T, v))
            out.append(spec_value(sub, name))
        if all(T[2] for T, _ in recs):
            return ('tup', tuple(out))
        return ('rec', tuple(zip(keys, out)))
    kinds = [leaf_kind(T) for T in Ts]
    k, r = ufunc_leaf(name, kinds, [int(v) for _, v in args])
    return bool(r) if k == 'b' else r


def rec_field(v, i):
    """i-th field of a record value: generator form ('$rec', [v..]) or evaluated form ('rec', ((k, v)..)) / ('tup', (v..))"""
    if v[0] == '$rec':
        return v[1][i]
    if v[0] == 'rec':
        return v[1][i][1]
    return v[1][i]


def pyspec(name, args):
    """whole-array specification: every array is one element of a length-1 regular dimension (what broadcast_pack does);
    returns ('ok', list value) | ('err',) | ('unspecified', why)"""
    allow_rec = name.startswith('proj')
    packed = []
    for a in args:
        if a['kind'] == 'scalar':
            packed.append((('leaf', 'bool' if isinstance(a['value'], bool) else 'int64'), a['value']))
        else:
            packed.append((('reg', len(a['vals']), a['T']), a['vals']))
    try:
        spec_type([T for T, _ in packed], name, allow_rec)
        return ('ok', spec_value(packed, name))
    except BErr:
        return ('err',)
    except Unspecified as e:
        return ('unspecified', str(e))


# ---------------------------------------------------------------------------------------------- values in "to_list" form
def canon_spec_value(v):
    """spec value -> comparable Python structure (records as ('rec', ((k, v)...)) / ('tup', (...)))"""
    if isinstance(v, list):
        return [canon_spec_value(x) for x in v]
    if isinstance(v, tuple) and v and v[0] == '$rec':
        raise ValueError('generator-form record in a specification result')
    if isinstance(v, tuple) and v and v[0] == 'tup':
        return ('tup', tuple(canon_spec_value(x) for x in v[1]))
    if isinstance(v, tuple) and v and v[0] == 'rec':
        return ('rec', tuple((k, canon_spec_value(x)) for k, x in v[1]))
    return v


def veq(a, b):
    """structural equality that keeps bool and numbers apart"""
    if isinstance(a, list) or isinstance(b, list):
        return isinstance(a, list) and isinstance(b, list) and len(a) == len(b) and all(veq(x, y) for x, y in zip(a, b))
    if isinstance(a, tuple) or isinstance(b, tuple):
        if not (isinstance(a, tuple) and isinstance(b, tuple) and a[0] == b[0] and len(a[1]) == len(b[1])):
            return False
        if a[0] == 'tup':
            return all(veq(x, y) for x, y in zip(a[1], b[1]))
        return all(k1 == k2 and veq(x, y) for (k1, x), (k2, y) in zip(a[1], b[1]))
    if a is None or b is None:
        return a is None and b is None
    if isinstance(a, bool) or isinstance(b, bool):
        return isinstance(a, bool) and isinstance(b, bool) and a == b
    return a == b


class BadLayout(Exception):
    pass


def sx_parse(s):
    pos = [0]
    n = len(s)

    def go():
        while pos[0] < n and s[pos[0]] == ' ':
            pos[0] += 1
        if s[pos[0]] == '(':
            pos[0] += 1
            items = []
            while True:
                while pos[0] < n and s[pos[0]] == ' ':
                    pos[0] += 1
                if pos[0] >= n:
                    raise BadLayout('missing )')
                if s[pos[0]] == ')':
                    pos[0] += 1
                    return items
                items.append(go())
        q = pos[0]
        while q < n and s[q] not in ' ()':
            q += 1
        a = s[pos[0]:q]
        pos[0] = q
        return a
    return go()


def to_list_tree(t, tags=False):
    """nested value of a dumped layout (independent re-implementation of to_list; raises BadLayout on invalid input);
    tags=True keeps the alternative of union elements as ('$un', tag, value)"""
    h = t[0]

    def num(a):
        if a in ('nan', 'inf', '-inf') or a.startswith('f:'):
            return a
        return int(a)

    def get(vs, i):
        if i < 0 or i >= len(vs):
            raise BadLayout('index %d outside %d' % (i, len(vs)))
        return vs[i]
    if h == 'np':
        shape = [int(x) for x in t[2]]
        need = 1
        for d in shape:
            need *= d
        if not shape or len(t[3]) < need:
            raise BadLayout('np buffer')
        flat = [(num(x) != 0) if t[1] == 'bool' else num(x) for x in t[3][:need]]

        def nest(dims, items):
            if len(dims) == 1:
                return items
            per = 1
            for d in dims[1:]:
                per *= d
            return [nest(dims[1:], items[i * per:(i + 1) * per]) for i in range(dims[0])]
        return nest(shape, flat)
    if h == 'empty':
        return []
    if h == 'lo':
        vs = to_list_tree(t[3], tags)
        o = [int(x) for x in t[2]]
        if not o:
            raise BadLayout('offsets')
        out = []
        for a, b in zip(o[:-1], o[1:]):
            if a == b:
                out.append([])
                continue
            if not (0 <= a <= b <= len(vs)):
                raise BadLayout('offsets')
            out.append(vs[a:b])
        return out
    if h == 'la':
        vs = to_list_tree(t[4], tags)
        s, e = [int(x) for x in t[2]], [int(x) for x in t[3]]
        if len(e) < len(s):
            raise BadLayout('stops')
        out = []
        for a, b in zip(s, e):
            if a == b:
                out.append([])
                continue
            if not (0 <= a <= b <= len(vs)):
                raise BadLayout('starts/stops')
            out.append(vs[a:b])
        return out
    if h == 'reg':
        vs = to_list_tree(t[3], tags)
        size, zl = int(t[1]), int(t[2])
        if size < 0 or zl < 0:
            raise BadLayout('reg')
        if size == 0:
            return [[] for _ in range(zl)]
        return [vs[i * size:(i + 1) * size] for i in range(len(vs) // size)]
    if h == 'ix':
        vs = to_list_tree(t[3], tags)
        return [get(vs, int(i)) for i in t[2]]
    if h == 'ixo':
        vs = to_list_tree(t[3], tags)
        return [None if int(i) < 0 else get(vs, int(i)) for i in t[2]]
    if h == 'bym':
        vs = to_list_tree(t[3], tags)
        vw = int(t[2]) != 0
        return [get(vs, i) if ((int(m) != 0) == vw) else None for i, m in enumerate(t[1])]
    if h == 'bim':
        vs = to_list_tree(t[5], tags)
        vw, lsb, n = int(t[2]) != 0, int(t[3]) != 0, int(t[4])
        out = []
        for i in range(n):
            if i // 8 >= len(t[1]):
                raise BadLayout('bitmask')
            byte = int(t[1][i // 8])
            bit = (byte >> (i % 8)) & 1 if lsb else (byte >> (7 - i % 8)) & 1
            out.append(get(vs, i) if ((bit != 0) == vw) else None)
        return out
    if h == 'unm':
        return to_list_tree(t[1], tags)
    if h == 'un':
        vss = [to_list_tree(c, tags) for c in t[4:]]
        tgs, index = [int(x) for x in t[2]], [int(x) for x in t[3]]
        if len(index) < len(tgs):
            raise BadLayout('union index')
        if tags:
            return [('$un', tg, get(get(vss, tg), ix)) for tg, ix in zip(tgs, index)]
        return [get(get(vss, tg), ix) for tg, ix in zip(tgs, index)]
    if h == 'rec':
        n = int(t[1])
        vss = [to_list_tree(c, tags) for c in t[3:]]
        if t[2] == 'tuple':
            return [('tup', tuple(get(vs, i) for vs in vss)) for i in range(n)]
        return [('rec', tuple((k, get(vs, i)) for k, vs in zip(t[2], vss))) for i in range(n)]
    if h == 'par':
        return to_list_tree(t[3], tags)
    raise BadLayout('node ' + str(h))


def tree_len(t):
    h = t[0]
    if h == 'np':
        return int(t[2][0])
    if h == 'empty':
        return 0
    if h == 'lo':
        return len(t[2]) - 1
    if h == 'la':
        return len(t[2])
    if h == 'reg':
        size = int(t[1])
        return int(t[2]) if size == 0 else tree_len(t[3]) // size
    if h in ('ix', 'ixo'):
        return len(t[2])
    if h == 'bym':
        return len(t[1])
    if h == 'bim':
        return int(t[4])
    if h == 'unm':
        return tree_len(t[1])
    if h == 'un':
        return len(t[2])
    if h == 'rec':
        return int(t[1])
    if h == 'par':
        return tree_len(t[3])
    raise BadLayout('node ' + str(h))


def type_of_tree(t):
    """element type (in the type language of this file) of a layout text"""
    h = t[0]
    if h == 'np':
        T = ('leaf', t[1])
        for d in reversed([int(x) for x in t[2][1:]]):
            T = ('reg', d, T)
        return T
    if h == 'empty':
        return ('unk',)
    if h == 'lo':
        return ('var', type_of_tree(t[3]))
    if h == 'la':
        return ('var', type_of_tree(t[4]))
    if h == 'reg':
        return ('reg', int(t[1]), type_of_tree(t[3]))
    if h == 'ix':
        return type_of_tree(t[3])
    if h in ('ixo', 'bym'):
        return ('opt', type_of_tree(t[3]))
    if h == 'bim':
        return ('opt', type_of_tree(t[5]))
    if h == 'unm':
        return ('opt', type_of_tree(t[1]))
    if h == 'un':
        return ('union', [type_of_tree(c) for c in t[4:]])
    if h == 'rec':
        cs = [type_of_tree(c) for c in t[3:]]
        if t[2] == 'tuple':
            return ('rec', [(str(i), ct) for i, ct in enumerate(cs)], True)
        return ('rec', list(zip(t[2], cs)), False)
    if h == 'par':
        raise BadLayout('parameters are outside the specification')
    raise BadLayout('node ' + str(h))


def args_of_text(parts):
    """argument texts '(arr LAYOUT)' / '(scalar N)' -> the argument dicts pyspec takes (values in evaluated form)"""
    out = []
    for p in parts:
        t = sx_parse(p)
        if t[0] == 'scalar':
            out.append(dict(kind='scalar', value=int(t[-1])))
        else:
            out.append(dict(kind='arr', T=type_of_tree(t[1]), vals=to_list_tree(t[1], True), tree=t[1]))
    return out


def nodes_of(t):
    out = [t]
    for ch in t[1:]:
        if isinstance(ch, list) and ch and isinstance(ch[0], str) and ch[0] in (
                'np', 'empty', 'lo', 'la', 'reg', 'ix', 'ixo', 'bym', 'bim', 'unm', 'un', 'rec', 'par'):
            out.extend(nodes_of(ch))
    return out


def reg_sizes(T, acc):
    k = T[0]
    if k == 'reg':
        acc.append(T[1])
        reg_sizes(T[2], acc)
    elif k in ('var', 'opt'):
        reg_sizes(T[1], acc)
    elif k == 'rec':
        for _, ft in T[1]:
            reg_sizes(ft, acc)
    elif k == 'union':
        for a in T[1]:
            reg_sizes(a, acc)
    return acc


def reg_over_nonregular(T):
    """a regular level whose element structure is not purely regular"""
    k = T[0]
    if k == 'reg':
        return (not pure_regular(T[2])) or reg_over_nonregular(T[2])
    if k in ('var', 'opt'):
        return reg_over_nonregular(T[1])
    if k == 'rec':
        return any(reg_over_nonregular(ft) for _, ft in T[1])
    if k == 'union':
        return any(reg_over_nonregular(a) for a in T[1])
    return False


def case_flags(name, args):
    """structural facts about a tuple that the known-finding signatures refer to"""
    arrs = [a for a in args if a['kind'] == 'arr']
    inner, dims = [], []
    for a in arrs:
        reg_sizes(a['T'], inner)
        dims.append(len(a['vals']))
    if name.startswith('proj'):
        dims += [1 for a in args if a['kind'] == 'scalar']     # ak.broadcast_arrays turns a scalar into a length-1 array
    allreg = all(pure_regular(a['T']) and not has_kind(a['T'], 'rec') for a in arrs)
    if all(pure_regular(a['T']) for a in arrs) and len(set(rdepth(a['T']) for a in arrs)) > 1:
        dims.append(1)                 # implicit size-1 dimensions of the right-broadcast shallower arguments
    nd = False
    surplus = False
    zero_lo = False
    for a in arrs:
        for nd_ in nodes_of(a.get('tree', ['x'])):
            if nd_[0] == 'np' and len(nd_[2]) > 1:
                nd = True
            if nd_[0] == 'reg':
                size, zl = int(nd_[1]), int(nd_[2])
                try:
                    lc = tree_len(nd_[3])
                except BadLayout:
                    lc = 0
                if lc != (zl * size if size else 0) and (size == 0 and lc > 0 or size > 0 and lc != (lc // size) * size):
                    surplus = True
            if nd_[0] == 'lo' and len(nd_[2]) >= 1 and int(nd_[2][0]) != 0:
                zero_lo = True
            if nd_[0] == 'la' and len(nd_[2]) >= 1 and int(nd_[2][0]) != 0:
                zero_lo = True
    return dict(all_regular=allreg, ndnumpy=nd, ndnumpy_inner=nd and not allreg, size0=0 in inner,
                size01=(0 in inner + dims and (1 in inner + dims or len(set(rdepth(a['T']) for a in arrs)) > 1
                                                 or any(a['kind'] == 'scalar' for a in args))), regular_surplus=surplus, nonzero_start=zero_lo,
                reg_over_nonregular=any(reg_over_nonregular(a['T']) for a in arrs))


# ---------------------------------------------------------------------------------------------- encodings
class Enc(object):
    def __init__(self, rng, plain=False):
        self.rng = rng
        self.plain = plain          # canonical: ListOffset64 from 0, IndexedOption64 with -1, no junk, no wrappers
        self.stats = {}

    def count(self, k):
        self.stats[k] = self.stats.get(k, 0) + 1


def free_value(rng, T, maxlen=2):
    """a random value of type T (used for unreachable content and for positions masked by the other argument)"""
    k = T[0]
    if k == 'leaf':
        if T[1] == 'bool':
            return rng.random() < 0.5
        return rng.randint(0, 9) if T[1] in UNSIGNED else rng.randint(-9, 9)
    if k == 'unk':
        raise ValueError('no value of unknown type')
    if k == 'var':
        if not can_have_value(T[1]):
            return []
        return [free_value(rng, T[1], maxlen) for _ in range(rng.choice([0, 1, 2, maxlen]))]
    if k == 'reg':
        return [free_value(rng, T[2], maxlen) for _ in range(T[1])]
    if k == 'opt':
        if not can_have_value(T[1]):
            return None
        return None if rng.random() < 0.25 else free_value(rng, T[1], maxlen)
    if k == 'rec':
        return ('$rec', [free_value(rng, ft, maxlen) for _, ft in T[1]])
    if k == 'union':
        i = rng.randrange(len(T[1]))
        return ('$un', i, free_value(rng, T[1][i], maxlen))
    raise ValueError(T)


def can_have_value(T):
    """False when T has no inhabitant (an unknown-type leaf outside a var list / option)"""
    k = T[0]
    if k == 'unk':
        return False
    if k in ('var', 'opt'):
        return True
    if k == 'reg':
        return T[1] == 0 or can_have_value(T[2])
    if k == 'rec':
        return all(can_have_value(ft) for _, ft in T[1])
    if k == 'union':
        return any(can_have_value(a) for a in T[1])
    return True


def junk(enc, T, nmax=2):
    if enc.plain or not can_have_value(T):
        return []
    return [free_value(enc.rng, T) for _ in range(enc.rng.choice([0, 0, 1, nmax]))]


def pure_reg_chain(T):
    """[n1, n2, ...] and the leaf dtype when T = reg n1 (reg n2 (... leaf)), else None"""
    dims = []
    while T[0] == 'reg':
        dims.append(T[1])
        T = T[2]
    if T[0] == 'leaf' and dims:
        return dims, T[1]
    return None


def flatten_k(vals, k):
    for _ in range(k):
        vals = [x for l in vals for x in l]
    return vals


def encode(enc, T, vals, under_option=False):
    """layout tree of length len(vals) whose value is vals"""
    rng = enc.rng
    k = T[0]
    if not enc.plain and not under_option and k != 'opt' and rng.random() < 0.10:
        n = len(vals)
        pre = junk(enc, T)
        perm = list(range(n))
        rng.shuffle(perm)
        stored = pre + [vals[p] for p in perm] + junk(enc, T)
        pos = {p: len(pre) + i for i, p in enumerate(perm)}
        enc.count('ix')
        return ['ix', rng.choice(G.WIDTHS), [pos[i] for i in range(n)], encode_plain(enc, T, stored, True)]
    return encode_plain(enc, T, vals, under_option)


def encode_plain(enc, T, vals, under_option):
    rng = enc.rng
    k = T[0]
    if k == 'leaf':
        enc.count('np')
        return ['np', T[1], [len(vals)], [int(v) if not isinstance(v, bool) else v for v in vals]]
    if k == 'unk':
        assert not vals
        enc.count('empty')
        return ['empty']
    if k == 'reg':
        chain = pure_reg_chain(T)
        if chain is not None and not enc.plain and rng.random() < 0.35:
            dims, dt = chain
            enc.count('np%dd' % (len(dims) + 1))
            return ['np', dt, [len(vals)] + dims, flatten_k(vals, len(dims))]
        size = T[1]
        flat = [x for l in vals for x in l]
        extra = junk(enc, T[2], max(size - 1, 0))[:max(size - 1, 0)] if size > 0 else junk(enc, T[2])
        enc.count('reg')
        return ['reg', size, len(vals), encode(enc, T[2], flat + extra)]
    if k == 'var':
        return encode_var(enc, T[1], vals)
    if k == 'opt':
        return encode_opt(enc, T[1], vals)
    if k == 'rec':
        enc.count('rec')
        children = []
        for i, (_, ft) in enumerate(T[1]):
            col = [v[1][i] for v in vals] + junk(enc, ft)
            children.append(encode(enc, ft, col))
        return ['rec', len(vals), 'tuple' if T[2] else [n for n, _ in T[1]]] + children
    if k == 'union':
        alts = T[1]
        enc.count('un')
        stored = [junk(enc, a, 1) for a in alts]
        tags, index = [], []
        for v in vals:
            _, i, x = v
            tags.append(i)
            index.append(len(stored[i]))
            stored[i].append(x)
        return ['un', 'i64' if enc.plain else rng.choice(G.WIDTHS), tags, index] + \
            [encode(enc, a, stored[i]) for i, a in enumerate(alts)]
    raise ValueError(T)


def encode_var(enc, it, lists):
    rng = enc.rng
    n = len(lists)
    kind = 'lo' if enc.plain else rng.choice(['lo', 'lo', 'la'])
    w = 'i64' if enc.plain else rng.choice(G.WIDTHS)
    enc.count(kind)
    if kind == 'lo':
        flat = list(junk(enc, it))
        offsets = [len(flat)]
        for l in lists:
            flat.extend(l)
            offsets.append(len(flat))
        flat.extend(junk(enc, it))
        return ['lo', w, offsets, encode(enc, it, flat)]
    order = list(range(n))
    rng.shuffle(order)
    flat = list(junk(enc, it))
    starts, stops = [0] * n, [0] * n
    for i in order:
        l = lists[i]
        if len(l) == 0:
            starts[i] = stops[i] = rng.randint(0, len(flat))
            continue
        starts[i] = len(flat)
        flat.extend(l)
        stops[i] = len(flat)
        flat.extend(junk(enc, it, 1))
    extra_stops = [0] * rng.choice([0, 0, 1])
    for i in range(n):
        # a zero-length list may start and stop anywhere, also beyond the content (valid: only start <= stop is required)
        if len(lists[i]) == 0 and rng.random() < 0.3:
            starts[i] = stops[i] = len(flat) + rng.choice([1, 2, 5])
            enc.count('la_empty_beyond')
    return ['la', w, starts, stops + extra_stops, encode(enc, it, flat)]


def encode_opt(enc, it, vals):
    rng = enc.rng
    n = len(vals)
    has_none = any(v is None for v in vals)
    inhabited = can_have_value(it)
    if enc.plain or not inhabited:
        kind = 'ixo'
    else:
        kind = rng.choice([k for k in ('ixo', 'ixo', 'bym', 'bim', 'unm') if k != 'unm' or not has_none])
    enc.count(kind)
    if kind == 'unm':
        return ['unm', encode(enc, it, list(vals), True)]
    if kind == 'ixo':
        present = [i for i, v in enumerate(vals) if v is not None]
        pre = junk(enc, it)
        order = list(present)
        if not enc.plain:
            rng.shuffle(order)
        stored = pre + [vals[i] for i in order] + junk(enc, it)
        pos = {i: len(pre) + j for j, i in enumerate(order)}
        index = [(-1 if enc.plain else rng.choice([-1, -1, -2, -7])) if v is None else pos[i] for i, v in enumerate(vals)]
        return ['ixo', 'i64' if enc.plain else rng.choice(['i32', 'i64']), index, encode(enc, it, stored, True)]
    full = [v if v is not None else free_value(rng, it) for v in vals]
    if kind == 'bym':
        vw = rng.random() < 0.5
        mask = [(rng.choice([1, 1, 2, -1, 127]) if ((v is not None) == vw) else 0) for v in vals]
        return ['bym', mask, vw, encode(enc, it, full + junk(enc, it), True)]
    vw = rng.random() < 0.5
    lsb = rng.random() < 0.5
    nbytes = (n + 7) // 8 + rng.choice([0, 0, 1])
    bits = [1 if ((v is not None) == vw) else 0 for v in vals]
    while len(bits) < nbytes * 8:
        bits.append(rng.randint(0, 1))
    mask = []
    for b in range(nbytes):
        byte = 0
        for kk in range(8):
            if bits[b * 8 + kk]:
                byte |= (1 << kk) if lsb else (1 << (7 - kk))
        mask.append(byte)
    return ['bim', mask, vw, lsb, n, encode(enc, it, full + junk(enc, it), True)]


# ---------------------------------------------------------------------------------------------- generation
def gen_master(rng, depth, allow_rec, allow_union, bool_ok=True):
    """element type of the deepest argument"""
    r = rng.random()
    if depth <= 0 or r < 0.18:
        if bool_ok and rng.random() < 0.12:
            return ('leaf', 'bool')
        return ('leaf', rng.choice(NUM_DT))
    if r < 0.50:
        return ('var', gen_master(rng, depth - 1, allow_rec, allow_union, bool_ok))
    if r < 0.70:
        return ('reg', rng.choice([0] + [1] * 3 + [2] * 7 + [3] * 4), gen_master(rng, depth - 1, allow_rec, allow_union, bool_ok))
    if r < 0.84:
        t = gen_master(rng, depth - 1, allow_rec, allow_union, bool_ok)
        return t if t[0] == 'opt' else ('opt', t)
    if r < 0.94 and allow_rec:
        n = rng.choice([1, 2, 2, 3])
        names = rng.sample(['a', 'b', 'c', 'x', 'y'], n)
        return ('rec', [(names[i], gen_master(rng, depth - 1, allow_rec, False, bool_ok)) for i in range(n)],
                rng.random() < 0.2)
    if allow_union:
        a = gen_master(rng, depth - 1, False, False, bool_ok)
        b = gen_master(rng, depth - 1, False, False, bool_ok)
        if union_kind(a) != union_kind(b):
            return ('union', [a, b])
        return a
    return ('var', gen_master(rng, depth - 1, allow_rec, allow_union, bool_ok))


def union_kind(T):
    """coarse kind keeping union alternatives non-mergeable (so that simplify keeps them apart)"""
    if T[0] == 'leaf':
        return 'bool' if T[1] == 'bool' else 'num'
    if T[0] == 'opt':
        return union_kind(T[1])
    if T[0] in ('var', 'reg'):
        return 'list'
    return T[0]


def gen_value(rng, T):
    k = T[0]
    if k in ('leaf', 'rec', 'union') or k == 'opt' and False:
        pass
    if k == 'leaf':
        return free_value(rng, T)
    if k == 'var':
        return [gen_value(rng, T[1]) for _ in range(rng.choice([0, 1, 2, 2, 3]))]
    if k == 'reg':
        return [gen_value(rng, T[2]) for _ in range(T[1])]
    if k == 'opt':
        return None if rng.random() < 0.25 else gen_value(rng, T[1])
    if k == 'rec':
        return ('$rec', [gen_value(rng, ft) for _, ft in T[1]])
    if k == 'union':
        i = rng.randrange(len(T[1]))
        return ('$un', i, gen_value(rng, T[1][i]))
    raise ValueError(T)


def derive_leaf(rng, M):
    if M[0] == 'leaf' and M[1] == 'bool' and rng.random() < 0.7:
        return ('leaf', 'bool')
    return ('leaf', rng.choice(NUM_DT))


def derive_type(rng, M, p_cut=0.18, p_opt=0.10, top=False):
    """a type broadcast-compatible with M (up to value-dependent choices)"""
    if rng.random() < p_opt and M[0] != 'opt':
        t = derive_type(rng, M, p_cut, 0.0)
        return t if t[0] in ('opt', 'unk') else ('opt', t)
    k = M[0]
    if k == 'leaf' or k == 'unk':
        return derive_leaf(rng, M)
    if k == 'opt':
        inner = derive_type(rng, M[1], p_cut, 0.0)
        return inner if (rng.random() < 0.45 or inner[0] == 'opt') else ('opt', inner)
    if k in ('var', 'reg'):
        r = rng.random()
        if r < p_cut and not top:
            return derive_leaf(rng, ('leaf', 'int64'))
        inner = derive_type(rng, elem(M), p_cut, p_opt)
        r = rng.random()
        if k == 'var':
            if r < 0.78:
                return ('var', inner)
            if r < 0.93:
                return ('reg', 1, inner)
            return ('reg', rng.choice([1, 2, 3]), inner)      # compatible only if the lengths happen to agree
        if r < 0.62:
            return ('reg', M[1], inner)
        if r < 0.80:
            return ('reg', 1, inner)
        return ('var', inner)
    if k == 'rec':
        if rng.random() < 0.15:
            return derive_leaf(rng, ('leaf', 'int64'))
        fields = [(n, derive_type(rng, ft, p_cut, p_opt)) for n, ft in M[1]]
        if not M[2] and rng.random() < 0.4:
            rng.shuffle(fields)
        if rng.random() < 0.06 and len(fields) > 1:
            fields = fields[:-1]               # differing keys: error half
        return ('rec', fields, M[2])
    if k == 'union':
        return derive_type(rng, rng.choice(M[1]), p_cut, p_opt)
    raise ValueError(M)


def derive_value(rng, M, Bt, vM, known=True):
    """a value of type Bt shaped like the value vM of type M (list lengths copied), free where M gives no guidance"""
    if not known:
        return free_value(rng, Bt) if can_have_value(Bt) else None
    if M[0] == 'union':
        return derive_value(rng, M[1][vM[1]], Bt, vM[2])
    if M[0] == 'opt' and Bt[0] != 'opt':
        if vM is None:
            return free_value(rng, Bt)
        return derive_value(rng, M[1], Bt, vM)
    k = Bt[0]
    if k == 'leaf':
        return free_value(rng, Bt)
    if k == 'opt':
        if rng.random() < 0.22:
            return None
        if M[0] == 'opt':
            if vM is None:
                return free_value(rng, Bt[1])
            return derive_value(rng, M[1], Bt[1], vM)
        return derive_value(rng, M, Bt[1], vM)
    if k in ('var', 'reg'):
        if not is_list(M):
            return free_value(rng, Bt)
        me, be = elem(M), elem(Bt)
        if k == 'reg':
            n = Bt[1]
            src = list(vM)
            out = []
            for i in range(n):
                out.append(derive_value(rng, me, be, src[i]) if i < len(src) else free_value(rng, be))
            return out
        return [derive_value(rng, me, be, x) for x in vM]
    if k == 'rec':
        if M[0] != 'rec':
            return free_value(rng, Bt)
        md = {n: (ft, i) for i, (n, ft) in enumerate(M[1])}
        out = []
        for n, ft in Bt[1]:
            if n in md:
                out.append(derive_value(rng, md[n][0], ft, vM[1][md[n][1]]))
            else:
                out.append(free_value(rng, ft))
        return ('$rec', out)
    raise ValueError(Bt)


def mutate_lengths(rng, T, v):
    """change the length of one variable-length list somewhere inside v (returns True if something changed)"""
    spots = []

    def walk(T, v, setter):
        if v is None:
            return
        if T[0] == 'opt':
            walk(T[1], v, setter)
        elif T[0] == 'var':
            spots.append((T, v))
            for x in v:
                walk(T[1], x, None)
        elif T[0] == 'reg':
            for x in v:
                walk(T[2], x, None)
        elif T[0] == 'rec':
            for (_, ft), x in zip(T[1], v[1]):
                walk(ft, x, None)
    walk(T, v, None)
    rng.shuffle(spots)
    for T1, l in spots:
        if not can_have_value(T1[1]):
            continue
        if l and rng.random() < 0.5:
            l.pop(rng.randrange(len(l)))
        else:
            l.insert(rng.randint(0, len(l)), free_value(rng, T1[1]))
        return True
    return False


def gen_rectilinear(rng, nargs):
    """all-regular arguments: NumPy shapes with missing leading dimensions and size-1 dimensions"""
    k = rng.choice([1, 2, 2, 3])
    R = [rng.choice([0] + [1] * 2 + [2] * 6 + [3] * 4) for _ in range(k)]
    args = []
    bad = rng.random() < 0.12
    for _ in range(nargs):
        nd = rng.choice([k] * 3 + list(range(1, k + 1)))
        dims = [(1 if rng.random() < 0.25 else d) for d in R[k - nd:]]
        if bad and rng.random() < 0.5:
            j = rng.randrange(len(dims))
            dims[j] = dims[j] + rng.choice([1, 2])
        dt = rng.choice(NUM_DT + ['bool'])
        T = ('leaf', dt)
        for d in reversed(dims[1:]):
            T = ('reg', d, T)
        vals = [gen_value(rng, T) for _ in range(dims[0])]
        args.append(dict(kind='arr', T=T, vals=vals))
    return args


def gen_scalar(rng):
    return dict(kind='scalar', value=rng.randint(0, 9) if rng.random() < 0.5 else rng.randint(-9, 9))


def strip_unk(T):
    return T


def gen_tuple(rng, i):
    """one case: (name, args, tags)"""
    r = rng.random()
    nargs = rng.choice([1, 2, 2, 2, 2, 2, 3, 3])
    names = {1: UNARY, 2: BINARY, 3: TERNARY}[nargs]
    name = rng.choice(names)
    allow_rec = name.startswith('proj') and rng.random() < 0.8
    kind = None
    if r < 0.20:
        kind = 'rectilinear'
        args = gen_rectilinear(rng, nargs)
    else:
        depth = rng.choice([1, 2, 2, 3, 3])
        M = gen_master(rng, depth, allow_rec, allow_union=(rng.random() < 0.08))
        n = rng.choice([0, 1, 2, 3, 3, 4])
        vals = [gen_value(rng, M) for _ in range(n)]
        args = [dict(kind='arr', T=M, vals=vals)]
        r2 = rng.random()
        kind = 'same' if r2 < 0.25 else ('derived' if r2 < 0.85 else 'mismatch')
        Mtop = ('reg', n, M)
        for _ in range(nargs - 1):
            if rng.random() < 0.15:
                args.append(gen_scalar(rng))
                continue
            if kind == 'same':
                # same structure: keep list kinds, only leaf dtypes (and the encoding) change
                Bt = ('reg', n, same_structure(rng, M))
            else:
                # the array dimension itself behaves as a regular dimension: same length, or length 1 (repeats)
                Bt = ('reg', n if rng.random() < 0.85 else 1, derive_type(rng, M))
            bv = derive_value(rng, Mtop, Bt, vals)
            args.append(dict(kind='arr', T=Bt[2], vals=bv))
        if kind == 'mismatch':
            cands = [a for a in args if a['kind'] == 'arr']
            a = rng.choice(cands)
            rr = rng.random()
            if rr < 0.6 and mutate_lengths(rng, ('reg', len(a['vals']), a['T']), a['vals']):
                pass
            elif can_have_value(a['T']):
                # change the array length itself
                if a['vals'] and rng.random() < 0.5:
                    a['vals'].pop()
                else:
                    a['vals'].append(free_value(rng, a['T']))
        rng.shuffle(args)
        if all(a['kind'] == 'scalar' for a in args):
            args[0] = dict(kind='arr', T=M, vals=vals)
    # occasionally turn empty leaf content into an unknown-type leaf (EmptyArray)
    for a in args:
        if a['kind'] == 'arr' and rng.random() < 0.15:
            a['T'], _ = maybe_unknown(rng, a['T'], a['vals'])
    name = fix_name(rng, name, args)
    tags = dict(kind=kind, nargs=nargs, fn=CANON.get(name, name), form=('operator' if name.startswith('op_') else
                                                                      'broadcast_arrays' if name.startswith('proj') else 'ufunc'))
    return name, args, tags


def same_structure(rng, T):
    k = T[0]
    if k == 'leaf' or k == 'unk':
        return derive_leaf(rng, T)
    if k == 'var':
        return ('var', same_structure(rng, T[1]))
    if k == 'reg':
        return ('reg', T[1], same_structure(rng, T[2]))
    if k == 'opt':
        return ('opt', same_structure(rng, T[1]))
    if k == 'rec':
        fields = [(n, same_structure(rng, ft)) for n, ft in T[1]]
        if not T[2] and rng.random() < 0.4:
            rng.shuffle(fields)
        return ('rec', fields, T[2])
    if k == 'union':
        return same_structure(rng, rng.choice(T[1]))
    raise ValueError(T)


def all_leaves_empty(T, vals):
    """True when no leaf value is reachable in vals"""
    k = T[0]
    if k == 'leaf':
        return not vals
    if k == 'var':
        return all_leaves_empty(T[1], [x for l in vals for x in l])
    if k == 'reg':
        return all_leaves_empty(T[2], [x for l in vals for x in l])
    if k == 'opt':
        return all_leaves_empty(T[1], [v for v in vals if v is not None])
    return False


def maybe_unknown(rng, T, vals):
    """replace the leaf by ('unk',) when nothing is stored there and T is a list/option chain"""
    chain = []
    t = T
    while t[0] in ('var', 'reg', 'opt'):
        chain.append(t)
        t = elem(t) if t[0] != 'opt' else t[1]
    if t[0] != 'leaf' or not all_leaves_empty(T, vals):
        return T, False
    # regular dimensions below must not need values: only allowed when nothing at all is stored
    out = ('unk',)
    for c in reversed(chain):
        if c[0] == 'var':
            out = ('var', out)
        elif c[0] == 'reg':
            out = ('reg', c[1], out)
        else:
            out = ('opt', out)
    return out, True


def fix_name(rng, name, args):
    """avoid NumPy's own refusals / wrap-arounds (see ASSUMPTIONS)"""
    dts = []
    for a in args:
        if a['kind'] == 'arr':
            dts += leaf_dtypes(a['T'])
        else:
            dts.append('int64')
    allb = all(d == 'bool' for d in dts)
    base = CANON.get(name, name)
    if allb and base in ('subtract', 'negative', 'clip3'):
        name = {'subtract': 'add', 'negative': 'absolute', 'clip3': 'proj0'}[base]
    if any(d in UNSIGNED for d in dts):
        if base in ('subtract', 'negative'):
            name = {'subtract': 'add', 'negative': 'absolute'}[base]
        for a in args:
            if a['kind'] == 'scalar':
                a['value'] = abs(a['value'])
    if base == 'clip3' and any(d == 'bool' for d in dts):
        name = 'proj0'
    return name


def arg_sx(enc, a):
    if a['kind'] == 'scalar':
        return '(scalar %d)' % a['value']
    return '(arr %s)' % G.sx(encode(enc, a['T'], a['vals']))


def nontrivial(args, spec):
    if spec[0] == 'err':
        return True
    if spec[0] != 'ok':
        return False

    def has_leaf(v):
        if isinstance(v, list):
            return any(has_leaf(x) for x in v)
        if isinstance(v, tuple) and v[0] == 'rec':
            return any(has_leaf(x) for _, x in v[1])
        if isinstance(v, tuple):
            return any(has_leaf(x) for x in v[1])
        return v is not None
    return has_leaf(spec[1])


def struct_sig(args):
    """coarse structure signature of a tuple (for the evidence distribution)"""
    def s(T):
        k = T[0]
        if k in ('leaf', 'unk'):
            return 'x'
        if k == 'var':
            return 'v' + s(T[1])
        if k == 'reg':
            return 'r' + s(T[2])
        if k == 'opt':
            return '?' + s(T[1])
        if k == 'rec':
            return '{' + ','.join(s(ft) for _, ft in T[1]) + '}'
        return 'U'
    return '|'.join('s' if a['kind'] == 'scalar' else s(a['T']) for a in args)


def finish_case(cid, name, parts, tags, gen_spec=None):
    """specification outcome, structural flags and distribution tags computed from the case TEXT"""
    try:
        targs = args_of_text(parts)
        spec = pyspec(name, targs)
        flags = case_flags(name, targs)
    except BadLayout as e:
        targs, spec, flags = [], ('unspecified', 'bad layout: %s' % e), {}
    if gen_spec is not None and spec[0] != 'unspecified':
        # the generator's own (type, value) and the evaluated case text must describe the same tuple
        same = (gen_spec[0] == spec[0]) and (spec[0] != 'ok' or veq(canon_spec_value(gen_spec[1]), canon_spec_value(spec[1])))
        if not same:
            raise AssertionError('encoder defect in case %s: %r vs %r' % (cid, gen_spec, spec))
    arrs = [a for a in targs if a['kind'] == 'arr']
    tags = dict(tags, outcome=spec[0],
                depths='/'.join(str(rdepth(a['T']) + 1) if a['kind'] == 'arr' and rdepth(a['T']) is not None else 's'
                                for a in targs),
                has_option=any(has_kind(a['T'], 'opt') for a in arrs), has_record=any(has_kind(a['T'], 'rec') for a in arrs),
                has_union=any(has_kind(a['T'], 'union') for a in arrs), has_scalar=any(a['kind'] == 'scalar' for a in targs),
                all_regular=flags.get('all_regular'), ndnumpy=flags.get('ndnumpy'),
                empty=any(has_kind(a['T'], 'unk') for a in arrs))
    meta = dict(tags=tags, pyspec=spec, nontrivial=nontrivial(targs, spec), sig=struct_sig(targs), flags=flags)
    return C.Case(cid, 'ufunc', [name], list(parts), meta)


def gen_nearmiss(rng, i):
    """adversarial inputs for the same-offsets shortcut of _util.apply (all_same_offsets): a ListOffsetArray from 0 and a
    ListArray whose starts/stops agree with those offsets everywhere except at one position (a shorter / longer / moved
    list: the lengths differ there, so broadcasting must raise), or agree completely (must take the shortcut and be
    right), in both operand orders, all index widths, optionally one list level down"""
    n = rng.choice([2, 3, 3, 4])
    lens = [rng.choice([1, 2, 2, 3]) for _ in range(n)]
    offsets = [0]
    for l in lens:
        offsets.append(offsets[-1] + l)
    tot = offsets[-1]
    starts, stops = offsets[:-1], offsets[1:]
    mode = rng.choice(['equal', 'stop-', 'stop-', 'start+', 'stop+', 'both'])
    j = rng.randrange(n - 1) if n > 1 else 0            # never the last list: the last stop stays equal
    starts, stops = list(starts), list(stops)
    if mode == 'stop-':
        stops[j] -= 1
    elif mode == 'start+' and j > 0:
        starts[j] += 1
    elif mode == 'stop+':
        stops[j] += 1
    elif mode == 'both' and j > 0:
        starts[j] += 1
        stops[j - 1] -= 1 if stops[j - 1] - starts[j - 1] > 0 else 0
    d1, d2 = rng.choice(NUM_DT), rng.choice(NUM_DT)
    w1, w2 = rng.choice(G.WIDTHS), rng.choice(G.WIDTHS)

    def data(dt, k):
        lo = 0 if dt in UNSIGNED else -9
        return [rng.randint(lo, 9) for _ in range(k)]
    a = ['lo', w1, offsets, ['np', d1, [tot + rng.choice([0, 0, 2])], None]]
    a[3][3] = data(d1, a[3][2][0])
    b = ['la', w2, starts, stops, ['np', d2, [tot + rng.choice([0, 1])], None]]
    b[3 + 1][3] = data(d2, b[4][2][0])
    if rng.random() < 0.3:
        # one list level down: the same pair below identical outer offsets
        k = rng.randint(1, n)
        outer = [0, k, n] if k < n else [0, n]
        a = ['lo', 'i64', outer, a]
        b = ['lo', 'i64', outer, b]
    parts = ['(arr %s)' % G.sx(a), '(arr %s)' % G.sx(b)]
    if rng.random() < 0.5:
        parts.reverse()
    names = [x for x in BINARY if not x.startswith('proj')]
    name = rng.choice(names)
    if (d1 in UNSIGNED or d2 in UNSIGNED) and CANON.get(name, name) in ('subtract',):
        name = 'add'
    return name, parts, dict(kind='nearmiss-same-offsets', mode=mode, nargs=2, fn=CANON.get(name, name),
                             form='operator' if name.startswith('op_') else 'ufunc')


def make_case(rng, i):
    if rng.random() < 0.04:
        name, parts, tags = gen_nearmiss(rng, i)
        c = finish_case('c%d' % i, name, parts, tags)
        c.meta['enc'] = {}
        return c
    name, args, tags = gen_tuple(rng, i)
    enc = Enc(rng, plain=(rng.random() < 0.1))
    parts = [arg_sx(enc, a) for a in args]
    gs = pyspec(name, args)
    c = finish_case('c%d' % i, name, parts, tags, gen_spec=gs)
    c.meta['enc'] = dict(enc.stats)
    return c


def corpus_cases():
    out = []
    if os.path.isdir(CORPUS):
        for fn in sorted(os.listdir(CORPUS)):
            if not fn.endswith('.case'):
                continue
            for ln in open(os.path.join(CORPUS, fn)):
                ln = ln.strip()
                if not ln or ln.startswith('#'):
                    continue
                c = parse_case_line(ln, 'k_')
                if c is not None:
                    out.append(c)
    return out


def parse_case_line(ln, prefix=''):
    m = re.match(r'^\((\S+) ufunc (\S+) (.*)\)$', ln)
    if not m:
        return None
    # split the arguments at top level
    rest, parts, depth, cur = m.group(3), [], 0, ''
    for ch in rest:
        if ch == '(':
            depth += 1
        if depth > 0:
            cur += ch
        if ch == ')':
            depth -= 1
            if depth == 0:
                parts.append(cur)
                cur = ''
    return finish_case(prefix + m.group(1), m.group(2), parts,
                       dict(kind='corpus' if prefix else 'replay', fn=CANON.get(m.group(2), m.group(2))))


def replay_cases(path):
    out = []
    for ln in open(path):
        ln = ln.strip()
        if not ln or ln.startswith('#'):
            continue
        c = parse_case_line(ln)
        if c is not None:
            out.append(c)
    return out


def cases(rng, tier):
    n = 2000 if tier == 'quick' else 20000
    out = corpus_cases()
    for i in range(n):
        out.append(make_case(rng, i))
    return out


# ---------------------------------------------------------------------------------------------- running
def start_runner():
    env = dict(os.environ)
    env['PYTHONHASHSEED'] = '0'
    env['PYTHONDONTWRITEBYTECODE'] = '1'
    env['VERIF_ROOT'] = C.VERIF
    return subprocess.Popen([PY, RUNNER], stdin=subprocess.PIPE, stdout=subprocess.PIPE, stderr=subprocess.PIPE,
                            text=True, env=env)


def run_impl_chunk(lines):
    """one long-lived runner process; returns (dict id -> result text, crashed_at or None, stderr tail)"""
    p = start_runner()
    try:
        out, err = p.communicate('\n'.join(lines) + '\n', timeout=120 + 0.25 * len(lines))
    except subprocess.TimeoutExpired:
        p.kill()
        out, err = p.communicate()
    res = {}
    for ol in out.splitlines():
        m = C.LINE_ID.match(ol)
        if m:
            res[m.group(1)] = ol[len(m.group(1)) + 2:-1]
    return res, err[-1500:]


ND_NP = re.compile(r'\(np (\S+) \((\d+) (\d+)')


def physical_variant(line):
    """the implementation sees every other case with its n-d NumpyArray nodes stored NON-contiguously (Fortran order:
    `(npT ...)`, built by py_c04.py) -- strides are physical layout, not value: model, specification and the NumPy voter
    keep reading the same `(np ...)` text.  Deterministic per case id."""
    m = C.LINE_ID.match(line)
    if not m or sum(map(ord, m.group(1))) % 2:
        return line
    return ND_NP.sub(lambda k: '(npT %s (%s %s' % (k.group(1), k.group(2), k.group(3)), line)


def run_impl(cases, nproc=8):
    """all cases through py_c04.py (parallel batches); a case whose batch died is retried alone"""
    from concurrent.futures import ThreadPoolExecutor
    lines = [physical_variant(c.line()) for c in cases]
    size = max(1, (len(lines) + nproc - 1) // nproc)
    chunks = [lines[i:i + size] for i in range(0, len(lines), size)]
    res, errs = {}, {}
    with ThreadPoolExecutor(max_workers=nproc) as ex:
        for chunk, (r, err) in zip(chunks, ex.map(run_impl_chunk, chunks)):
            res.update(r)
            missing = [l for l in chunk if C.LINE_ID.match(l).group(1) not in r]
            # the runner stopped (crash of the interpreter / time-out): run the rest one by one
            for l in missing:
                cid = C.LINE_ID.match(l).group(1)
                r1, err1 = run_impl_chunk([l])
                if cid in r1:
                    res[cid] = r1[cid]
                else:
                    res[cid] = 'crash runner-died'
                    errs[cid] = err1
    return res, errs


def run_bcastrun(lines):
    exe = os.path.join(B, 'bcastrun')
    p = subprocess.run('ulimit -s unlimited 2>/dev/null; exec ' + exe, shell=True, input='\n'.join(lines) + '\n',
                       stdout=subprocess.PIPE, stderr=subprocess.PIPE, text=True, timeout=3600)
    out = {}
    for ol in p.stdout.splitlines():
        m = C.LINE_ID.match(ol)
        if m:
            out[m.group(1)] = ol[len(m.group(1)) + 2:-1]
    if p.returncode != 0:
        raise RuntimeError('bcastrun failed rc=%s: %s' % (p.returncode, p.stderr[-2000:]))
    return out


IMPL_RE = re.compile(r'^(ok) (.*) \(numpy ([^)]*)\)$|^(err) (\S+) (\S+) \(numpy ([^)]*)\)$')


def split_impl(r):
    """runner result text -> (status, payload, numpy verdict, message)"""
    m = IMPL_RE.match(r)
    if m and m.group(1):
        return 'ok', m.group(2), m.group(3), ''
    if m:
        msg = m.group(6)
        try:
            msg = binascii.unhexlify(msg[1:]).decode('utf-8', 'replace')
        except Exception:    # noqa: BLE001
            pass
        return 'err', m.group(5), m.group(7), msg
    if r.startswith('crash'):
        return 'crash', r, 'na', ''
    return 'bad', r, 'na', ''


def load_env_skips():
    try:
        return json.load(open(ENV_SKIPS)).get('patterns', [])
    except (OSError, ValueError):
        return []


def env_skip(msg, patterns):
    for p in patterns:
        if re.search(p['regex'], msg):
            return p['name']
    return None


CHECKLEN = re.compile(r'cannot broadcast \w+ of length \d+ with \w+ of length \d+')


def signature(c, status, msg):
    """key into known_findings.json: which registered open defect of the pinned tree (if any) explains a disagreement.
    Every key needs the structural precondition of that defect (computed from the case text) AND its symptom."""
    f = c.meta.get('flags') or {}
    spec = c.meta.get('pyspec') or ('?',)
    # all_same_offsets indexes offsets[-1] of a zero-length list array: IndexError instead of an (empty) answer
    if 'IndexError' in msg and 'index -1 is out of bounds for axis 0 with size 0' in msg and \
            all(a.startswith(('(arr (la', '(arr (lo', '(arr (np', '(arr (ix', '(arr (reg', '(arr (bym', '(arr (bim', '(arr (unm', '(val'))
                for a in c.layouts) and any(' () ' in a for a in c.layouts):
        return 'broadcast-all-same-offsets-empty-indexerror'
    if c.args[0].startswith('proj'):
        return None                      # ak.broadcast_arrays is outside the property's statement: never a finding
    if spec[0] != 'ok':
        return None                      # the other open findings are wrong answers / refusals on inputs that should work
    # D6: a size-1 regular dimension is not repeated zero times outside the NumPy fast path
    if (f.get('size01') or f.get('size0')) and status == 'err' and 'cannot broadcast RegularArray of size' in msg:
        # (also a size-0 regular dimension next to a zero-length variable one, which the library turns into size 1)
        return 'regular-size1-to-size0'
    # D4: n-d NumpyArray leaves of different rank below a variable-length list go to NumPy (right-aligned)
    if f.get('ndnumpy_inner') and (status == 'ok' or 'operands could not be broadcast' in msg or CHECKLEN.search(msg)
                                   or 'cannot broadcast RegularArray of size' in msg):
        return 'ndnumpy-leaf-right-broadcast'
    # D2: the all-RegularArray branch passes shallower (non-list) arguments on without repeating them
    if status == 'err' and CHECKLEN.search(msg) and f.get('reg_over_nonregular'):
        return 'regular-level-no-left-broadcast'
    # D5: RegularArray(out, size, len(content)): the length of a size-0 dimension is lost
    if f.get('size0') and (status == 'ok' or CHECKLEN.search(msg)):
        return 'regular-size0-length-lost'
    return None


def run(cases, tier, rng):
    import check as K
    t0 = time.time()
    res, errs = run_impl(cases)
    C.log('implementation evaluated %d in %.1fs' % (len(cases), time.time() - t0))
    patterns = load_env_skips()
    known = C.load_known()
    have_runner = os.path.exists(os.path.join(B, 'bcastrun'))
    mlines = []
    split = {}
    for c in cases:
        r = res.get(c.id, 'crash missing')
        st, payload, nv, msg = split_impl(r)
        split[c.id] = (st, payload, nv, msg)
        if st == 'ok':
            mlines.append('(%s %s (impl ok %s))' % (c.id, c.body(), payload))
        elif st == 'err':
            mlines.append('(%s %s (impl err %s))' % (c.id, c.body(), payload))
        elif st == 'crash':
            mlines.append('(%s %s (impl crash))' % (c.id, c.body()))
    t1 = time.time()
    verd = run_bcastrun(mlines) if (have_runner and mlines) else {}
    C.log('model/spec evaluated in %.1fs' % (time.time() - t1))

    verdicts, dist, samples, findings = {}, {}, [], []
    distinct = set()
    per = {'corr:ufunc': True, 'corr:broadcast_arrays': True, 'corr:pyspec-vs-rocq-spec': True, 'impl:numpy-rectilinear': True}
    env_counts = {}
    numpy_counts = {}
    kinds_count = {}
    n_eval = 0

    def add_finding(kind, c, what, sig, no_input=False, extra=()):
        if sig is None or K.match_known(known, 'C04', dict(signature=sig)) is None:
            per['corr:ufunc' if kind != 'numpy' else 'impl:numpy-rectilinear'] = False
        findings.append(dict(kind=kind, what=what, signature=sig, size=len(c.line()), no_input=no_input,
                             case_lines=[c.line()] + list(extra)))

    for c in cases:
        st, payload, nv, msg = split[c.id]
        n_eval += 1
        for k2, v2 in (c.meta.get('tags') or {}).items():
            dist.setdefault(k2, {})
            dist[k2][str(v2)] = dist[k2].get(str(v2), 0) + 1
        kinds_count[c.meta['sig']] = kinds_count.get(c.meta['sig'], 0) + 1
        v = verd.get(c.id)
        vk = v.split(' ', 1)[0] if v else ('norunner' if not have_runner else 'bad')
        spec = c.meta.get('pyspec')
        # ---- environment: exceptions that only reflect NumPy 2 / Python 3.12 vs the 2021 code
        if st == 'err':
            es = env_skip(msg, patterns)
            if es is not None:
                env_counts[es] = env_counts.get(es, 0) + 1
                verdicts['env-skip'] = verdicts.get('env-skip', 0) + 1
                continue
        if st == 'bad':
            verdicts['bad'] = verdicts.get('bad', 0) + 1
            per['corr:ufunc'] = False
            findings.append(dict(kind='bad', what='corr:ufunc could not be evaluated (runner): %s' % payload[:300],
                                 case_lines=[c.line()], signature=None, no_input=True, size=len(c.line())))
            continue
        if st == 'crash':
            verdicts['crash'] = verdicts.get('crash', 0) + 1
            add_finding('crash', c, 'ufunc %s: the implementation crashed (%s)' % (c.args[0], payload[:100]),
                        signature(c, st, msg), extra=['# stderr: ' + errs.get(c.id, '').replace('\n', '\n# ')])
            continue
        # ---- ak.broadcast_arrays: outside the property's statement; only the model-vs-implementation correspondence
        if c.args[0].startswith('proj'):
            if vk == 'agree':
                verdicts['agree-corr-only'] = verdicts.get('agree-corr-only', 0) + 1
            elif (vk == 'modeldiff' or vk == 'bad') and signature(c, st, msg) == 'broadcast-all-same-offsets-empty-indexerror':
                # the registered IndexError of all_same_offsets on zero-length list arrays, reached through
                # ak.broadcast_arrays: the same known finding, not a broken correspondence
                verdicts['known'] = verdicts.get('known', 0) + 1
                add_finding('viol', c, 'broadcast_arrays: IndexError of all_same_offsets on zero-length list arrays',
                            'broadcast-all-same-offsets-empty-indexerror')
            elif vk == 'modeldiff' or vk == 'bad':
                verdicts[vk] = verdicts.get(vk, 0) + 1
                per['corr:broadcast_arrays'] = False
                findings.append(dict(kind='modeldiff', what='correspondence corr:broadcast_arrays broken (the model of '
                                     'ak.broadcast_arrays differs from the implementation) [%s]' % str(v)[:500],
                                     case_lines=[c.line(), '# impl: ' + res.get(c.id, '')[:1200], '# rocq verdict: ' + str(v)[:1200]],
                                     signature=None, no_input=True, size=len(c.line())))
            else:
                verdicts['skip'] = verdicts.get('skip', 0) + 1
            continue
        # ---- Python transcription of the specification
        py_ok = None
        implval = None
        if spec is not None and spec[0] != 'unspecified':
            if st == 'ok':
                try:
                    implval = to_list_tree(sx_parse(payload))
                except BadLayout as e:
                    implval = ('$invalid', str(e))
            if spec[0] == 'err':
                py_ok = (st == 'err' and payload in ('value', 'runtime'))
            else:
                py_ok = (st == 'ok' and not (isinstance(implval, tuple) and implval and implval[0] == '$invalid')
                         and veq(implval, canon_spec_value(spec[1])))
        elif spec is not None:
            verdicts['pyspec-unspecified'] = verdicts.get('pyspec-unspecified', 0) + 1
        # ---- NumPy voter
        if nv != 'na':
            numpy_counts[nv] = numpy_counts.get(nv, 0) + 1
        sig = signature(c, st, msg)
        common = ['# impl: ' + res.get(c.id, '')[:1200], '# message: ' + msg[:300], '# rocq verdict: ' + str(v)[:1200],
                  '# pyspec: ' + repr(spec)[:600], '# numpy: ' + nv]
        if nv.startswith('differ'):
            add_finding('numpy', c, 'ufunc %s on rectilinear input differs from NumPy (%s)' % (c.args[0], nv), sig, extra=common)
            verdicts['viol-numpy'] = verdicts.get('viol-numpy', 0) + 1
            continue
        # ---- combine
        if vk == 'skip' or vk == 'norunner':
            if py_ok is None:
                verdicts['skip'] = verdicts.get('skip', 0) + 1
                continue
            if py_ok:
                verdicts['agree-pyspec-only'] = verdicts.get('agree-pyspec-only', 0) + 1
                if c.meta.get('nontrivial', True):
                    distinct.add(c.body())
                continue
            verdicts['viol'] = verdicts.get('viol', 0) + 1
            add_finding('viol', c, 'ufunc %s: implementation differs from the specification (Python transcription; '
                        'outside the Rocq fragment: %s)' % (c.args[0], str(v)[:80]), sig, extra=common)
            continue
        if vk == 'bad':
            verdicts['bad'] = verdicts.get('bad', 0) + 1
            per['corr:ufunc'] = False
            findings.append(dict(kind='bad', what='corr:ufunc could not be evaluated: %s' % str(v)[:300],
                                 case_lines=[c.line()] + common, signature=None, no_input=True, size=len(c.line())))
            continue
        if vk == 'agree':
            if py_ok is False:
                # the two transcriptions of the specification disagree: a defect of the check itself, fail closed
                per['corr:pyspec-vs-rocq-spec'] = False
                verdicts['specdiff'] = verdicts.get('specdiff', 0) + 1
                findings.append(dict(kind='modeldiff', what='corr:pyspec-vs-rocq-spec broken: the Python transcription of the '
                                     'specification and the Rocq specification disagree', case_lines=[c.line()] + common,
                                     signature=sig, no_input=True, size=len(c.line())))
                continue
            verdicts['agree'] = verdicts.get('agree', 0) + 1
            if ' nomodel' in v:
                verdicts['agree-nomodel'] = verdicts.get('agree-nomodel', 0) + 1
            if c.meta.get('nontrivial', True):
                distinct.add(c.body())
                if len(samples) < 6:
                    samples.append(c.line()[:400])
            continue
        if vk in ('viol', 'crash'):
            if py_ok:
                per['corr:pyspec-vs-rocq-spec'] = False
                verdicts['specdiff'] = verdicts.get('specdiff', 0) + 1
                findings.append(dict(kind='modeldiff', what='corr:pyspec-vs-rocq-spec broken: implementation agrees with the '
                                     'Python transcription but not with the Rocq specification', case_lines=[c.line()] + common,
                                     signature=sig, no_input=True, size=len(c.line())))
                continue
            verdicts['viol'] = verdicts.get('viol', 0) + 1
            add_finding('viol', c, 'ufunc %s: implementation differs from the specification [%s]' % (c.args[0], str(v)[:500]),
                        sig, extra=common)
            continue
        # modeldiff
        verdicts['modeldiff'] = verdicts.get('modeldiff', 0) + 1
        per['corr:ufunc'] = False
        findings.append(dict(kind='modeldiff', what='correspondence corr:ufunc broken (model differs from implementation and '
                             'spec) [%s]' % str(v)[:500], case_lines=[c.line()] + common, signature=sig, no_input=True,
                             size=len(c.line())))

    best = {}
    for f in findings:
        key = (f['kind'], str(f['signature']), f['what'][:60])
        if key not in best or f['size'] < best[key]['size']:
            best[key] = f
    fl = sorted(best.values(), key=lambda f: (f.get('no_input', False), f['size']))
    if not have_runner:
        per['corr:ufunc'] = False
        fl.append(dict(kind='bad', what='bcastrun missing: model and Rocq specification were not evaluated',
                       case_lines=['# bcastrun missing'], signature=None, no_input=True, size=0))
    try:
        import subprocess as sp
        npver = sp.run([PY, '-c', 'import numpy; print(numpy.__version__)'], stdout=sp.PIPE, text=True, timeout=60).stdout.strip()
    except Exception:   # noqa: BLE001
        npver = '?'
    top_kinds = dict(sorted(kinds_count.items(), key=lambda kv: -kv[1])[:40])
    extra = dict(numpy_version=npver, numpy_voter=numpy_counts, env_skips=env_counts,
                 env_skip_patterns=[p['name'] for p in patterns], structure_kinds=len(kinds_count),
                 structure_kinds_top=top_kinds)
    return dict(findings=fl, corr_obligations=per, evaluations=n_eval, distinct_nontrivial=len(distinct), samples=samples,
                distribution=dist, verdicts=verdicts, extra=extra)
