// option[record{a: option[int64]}] with the record behind a VirtualArray: v["a"] has type ?option[...]/??int64,
// the eager array option[...]/?int64  (simplify_optiontype does not look through a VirtualArray)
#include <iostream>
#include "awkward/Index.h"
#include "awkward/array/NumpyArray.h"
#include "awkward/array/RecordArray.h"
#include "awkward/array/IndexedArray.h"
#include "awkward/array/VirtualArray.h"
#include "awkward/virtual/ArrayGenerator.h"
#include "awkward/virtual/ArrayCache.h"
#include "awkward/type/Type.h"
namespace ak = awkward;
struct Gen : ak::ArrayGenerator {
  Gen(const ak::FormPtr& f, int64_t n, const ak::ContentPtr& p) : ak::ArrayGenerator(f, n), p_(p) {}
  const ak::ContentPtr generate() const override { return p_; }
  void caches(std::vector<ak::ArrayCachePtr>&) const override {}
  const std::string tostring_part(const std::string& i, const std::string& a, const std::string& b) const override { return i + a + "<Gen/>" + b; }
  const std::shared_ptr<ak::ArrayGenerator> shallow_copy() const override { return std::make_shared<Gen>(form_, length_, p_); }
  const std::shared_ptr<ak::ArrayGenerator> with_form(const ak::FormPtr& f) const override { return std::make_shared<Gen>(f, length_, p_); }
  const std::shared_ptr<ak::ArrayGenerator> with_length(int64_t n) const override { return std::make_shared<Gen>(form_, n, p_); }
  bool referentially_equal(const ak::ArrayGeneratorPtr& o) const override { return o.get() == this; }
  ak::ContentPtr p_;
};
static ak::Index64 ix(std::vector<int64_t> v) { ak::Index64 o((int64_t)v.size()); for (size_t i = 0; i < v.size(); i++) o.setitem_at_nowrap((int64_t)i, v[i]); return o; }
int main() {
  ak::ContentPtr num = std::make_shared<ak::NumpyArray>(ix({1, 2}));
  ak::ContentPtr a = std::make_shared<ak::IndexedOptionArray64>(ak::Identities::none(), ak::util::Parameters(), ix({0, -1}), num);
  auto lookup = std::make_shared<ak::util::RecordLookup>(); lookup->push_back("a");
  ak::ContentPtr rec = std::make_shared<ak::RecordArray>(ak::Identities::none(), ak::util::Parameters(), ak::ContentPtrVec({a}), lookup, 2);
  ak::ContentPtr eager = std::make_shared<ak::IndexedOptionArray64>(ak::Identities::none(), ak::util::Parameters(), ix({-1, 0, 1}), rec);
  ak::ArrayGeneratorPtr g = std::make_shared<Gen>(rec->form(true), 2, rec);
  ak::ContentPtr vrec = std::make_shared<ak::VirtualArray>(ak::Identities::none(), ak::util::Parameters(), g, ak::ArrayCachePtr(nullptr));
  ak::ContentPtr virt = std::make_shared<ak::IndexedOptionArray64>(ak::Identities::none(), ak::util::Parameters(), ix({-1, 0, 1}), vrec);
  std::cout << "eager   [\"a\"] type: " << eager->getitem_field("a")->type(ak::util::TypeStrs())->tostring() << "  json " << eager->getitem_field("a")->tojson(false, 1) << std::endl;
  std::cout << "virtual [\"a\"] type: " << virt->getitem_field("a")->type(ak::util::TypeStrs())->tostring() << "  json " << virt->getitem_field("a")->tojson(false, 1) << std::endl;
}
