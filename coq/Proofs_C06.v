(** C06: what the sort/argsort specification guarantees for one list of numeric leaves. *)
From AwkV Require Import Layout Ops_Sort Proofs_Sort.
From Coq Require Import Permutation Sorting.Sorted ZifyBool.

Lemma insert_by_map {A B} (f : A -> B) (b : B -> B -> bool) x l :
  insert_by b (f x) (map f l) = map f (insert_by (fun u v => b (f u) (f v)) x l).
Proof. induction l as [|y ys IH]; cbn; auto. destruct (b (f x) (f y)); cbn; congruence. Qed.

Lemma sort_by_map {A B} (f : A -> B) (b : B -> B -> bool) l :
  sort_by b (map f l) = map f (sort_by (fun u v => b (f u) (f v)) l).
Proof.
  unfold sort_by.
  assert (H : forall acc, fold_left (fun acc x => insert_by b x acc) (map f l) (map f acc) =
                          map f (fold_left (fun acc x => insert_by (fun u v => b (f u) (f v)) x acc) l acc)).
  { induction l as [|x xs IH]; intros acc; cbn; auto. rewrite insert_by_map. apply IH. }
  apply (H []).
Qed.

(* the numeric entries (position, datum) and the positions of the missing ones *)
Fixpoint nums (l : list (Z * value)) : list (Z * datum) :=
  match l with
  | [] => []
  | (j, VNum d) :: r => (j, d) :: nums r
  | _ :: r => nums r
  end.
Fixpoint none_pos (l : list (Z * value)) : list Z :=
  match l with
  | [] => []
  | (j, VNone) :: r => j :: none_pos r
  | _ :: r => none_pos r
  end.
Definition numeric (l : list (Z * value)) : Prop :=
  Forall (fun jv : Z * value => snd jv = VNone \/ exists d, snd jv = VNum d) l.

Definition pair_before (asc : bool) (a b : Z * datum) : bool := num_before asc (snd a) (snd b).

Lemma keyed_numeric l :
  numeric l ->
  mapM (fun jv : Z * value => do k <- key_of_value (snd jv); Ok (fst jv, k))
       (filter (fun jv : Z * value => match snd jv with VNone => false | _ => true end) l)
  = Ok (map (fun jd : Z * datum => (fst jd, KNum (snd jd))) (nums l)).
Proof.
  induction 1 as [|[j v] r Hv Hr IH]; cbn; auto.
  cbn [snd] in Hv. destruct Hv as [-> | [d ->]]; cbn.
  - exact IH.
  - cbn in IH. rewrite IH. reflexivity.
Qed.

Lemma nones_numeric l :
  numeric l ->
  map fst (filter (fun jv : Z * value => match snd jv with VNone => true | _ => false end) l) = none_pos l.
Proof.
  induction 1 as [|[j v] r Hv Hr IH]; cbn; auto.
  cbn [snd] in Hv. destruct Hv as [-> | [d ->]]; cbn; congruence.
Qed.

Definition sorted_pairs (asc : bool) (l : list (Z * value)) : list (Z * datum) :=
  sort_by (pair_before asc) (nums l).

Lemma sort_leaves_numeric asc argsort l :
  numeric l ->
  sort_leaves asc argsort l =
  Ok (if argsort
      then map (fun jd : Z * datum => VNum (DZ (fst jd))) (sorted_pairs asc l) ++ map (fun j => VNum (DZ j)) (none_pos l)
      else map (fun jd : Z * datum => VNum (snd jd)) (sorted_pairs asc l) ++ map (fun _ => VNone) (none_pos l)).
Proof.
  intros Hn. unfold sort_leaves. rewrite (keyed_numeric l Hn). cbn [bind].
  rewrite (sort_by_map (fun jd : Z * datum => (fst jd, KNum (snd jd)))).
  cbn [fst snd].
  change (fun u v : Z * datum => key_before asc (KNum (snd u)) (KNum (snd v))) with (pair_before asc).
  fold (sorted_pairs asc l).
  rewrite <- (nones_numeric l Hn).
  destruct argsort; rewrite !map_map; cbn [fst snd value_of_key]; reflexivity.
Qed.

(* the three facts the property asks for *)
Theorem sorted_pairs_perm asc l : Permutation (sorted_pairs asc l) (nums l).
Proof. apply sort_by_perm. Qed.

Theorem sorted_pairs_sorted asc l :
  StronglySorted (fun a b : Z * datum => num_before asc (snd b) (snd a) = false) (sorted_pairs asc l).
Proof.
  apply (sort_by_sorted (Z * datum) (pair_before asc)).
  - intros x. apply num_before_irrefl.
  - intros x y z. apply num_before_trans.
  - intros x y z. apply num_before_incomp.
Qed.

Theorem sorted_pairs_stable asc a l :
  filter (equivb (Z * datum) (pair_before asc) a) (sorted_pairs asc l) =
  filter (equivb (Z * datum) (pair_before asc) a) (nums l).
Proof.
  apply (sort_by_stable (Z * datum) (pair_before asc)).
  - intros x. apply num_before_irrefl.
  - intros x y z. apply num_before_trans.
  - intros x y z. apply num_before_incomp.
Qed.

(* NaN values come first in both directions: nothing but NaN precedes a NaN *)
Lemma sorted_prefix {A} (R : A -> A -> Prop) l1 x l2 :
  StronglySorted R (l1 ++ x :: l2) -> Forall (fun y => R y x) l1.
Proof.
  induction l1 as [|y ys IH]; cbn; intros H; [constructor|].
  inversion H as [|? ? Hs Hall]; subst. constructor.
  - rewrite Forall_forall in Hall. apply Hall. apply in_or_app. right. left. reflexivity.
  - apply IH. exact Hs.
Qed.

Theorem nan_first_sorted asc l pre j post :
  sorted_pairs asc l = pre ++ (j, DNaN) :: post -> Forall (fun p : Z * datum => snd p = DNaN) pre.
Proof.
  intros E. pose proof (sorted_pairs_sorted asc l) as Hs. rewrite E in Hs.
  apply sorted_prefix in Hs. rewrite Forall_forall in *. intros [j' d] Hin.
  specialize (Hs _ Hin). cbn in Hs |- *.
  destruct asc, d as [z| |[]]; cbn in Hs; try discriminate; reflexivity.
Qed.

Example sort_example :
  sort_leaves true false [(0, VNum (DZ 3)); (1, VNone); (2, VNum DNaN); (3, VNum (DZ (-8))); (4, VNum (DInf false))]
  = Ok [VNum DNaN; VNum (DZ (-8)); VNum (DZ 3); VNum (DInf false); VNone].
Proof. reflexivity. Qed.
Example argsort_example :
  sort_leaves false true [(0, VNum (DZ 3)); (1, VNone); (2, VNum DNaN); (3, VNum (DZ 3)); (4, VNum (DZ 7))]
  = Ok [VNum (DZ 2); VNum (DZ 4); VNum (DZ 0); VNum (DZ 3); VNum (DZ 1)].
Proof. reflexivity. Qed.
