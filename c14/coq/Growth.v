(** C14 — buffer growth is not observable: for options that make GrowableBuffer grow, every builder method, on
    logically equal states, returns logically equal results (same error, same replacement), whatever the initial
    capacity, the resize policy and the contents of uninitialised memory.  All builder classes, all commands. *)
From Coq Require Import ZArith List Bool Lia.
From AwkV Require Import Base Layout.
From AwkBuilder Require Import Builder Same GbLemmas Invariant Phys PhysStep.
Import ListNotations.
Open Scope Z_scope.

Definition okb (b : builder) : Prop := Forall gbwf (bufs b).
Definition R (b1 b2 : builder) : Prop := same b1 b2 /\ okb b1 /\ okb b2.
Definition Rg (g h : gb) : Prop := gb_same g h /\ gbwf g /\ gbwf h.
Definition Ro (r1 r2 : option builder) : Prop :=
  match r1, r2 with None, None => True | Some x, Some y => R x y | _, _ => False end.
Definition RS (x y : sres) : Prop :=
  match x, y with
  | SOk s r, SOk s' r' => R s s' /\ Ro r r'
  | SErr e s, SErr e' s' => e = e' /\ R s s'
  | _, _ => False
  end.
Definition Rrg (r1 r2 : res gb) : Prop :=
  match r1, r2 with Ok g, Ok h => Rg g h | Err e, Err e' => e = e' | _, _ => False end.
Definition Rrb (r1 r2 : res builder) : Prop :=
  match r1, r2 with Ok g, Ok h => R g h | Err e, Err e' => e = e' | _, _ => False end.
Definition Rl (cs cs' : list builder) : Prop := Forall2 R cs cs'.

(* ------------------------------------------------------------------ structure of R *)
Lemma all_Forall2 cs cs' :
  (fix all (l m : list builder) : Prop :=
     match l, m with [], [] => True | x :: t, y :: u => same x y /\ all t u | _, _ => False end) cs cs'
  <-> Forall2 same cs cs'.
Proof.
  revert cs'; induction cs as [|x t IH]; intros [|y u]; split; intro H; try contradiction; try (inversion H; fail); auto.
  - destruct H as [H1 H2]. constructor; auto. now apply IH.
  - inversion H; subst. split; auto. now apply IH.
Qed.

Lemma okb_flat cs : Forall gbwf (flat_map bufs cs) <-> Forall okb cs.
Proof.
  induction cs as [|x t IH]; cbn [flat_map]; split; intro H; auto.
  - apply Forall_app in H. destruct H as [H1 H2]. constructor; [exact H1|now apply IH].
  - inversion H; subst. apply Forall_app. split; [assumption|now apply IH].
Qed.

Lemma Rl_iff cs cs' : Rl cs cs' <-> Forall2 same cs cs' /\ Forall okb cs /\ Forall okb cs'.
Proof.
  split.
  - induction 1 as [|x y t u (S & O1 & O2) _ (IS & I1 & I2)]; [repeat split; constructor|].
    split; [constructor; auto|split; constructor; auto].
  - intros (S & O1 & O2). induction S as [|x y t u Sxy _ IH]; [constructor|].
    inversion O1; inversion O2; subst. constructor; [split; auto|apply IH; auto].
Qed.

Lemma R_leaf1 (mk : gb -> builder) g h :
  (forall x, bufs (mk x) = [x]) -> (forall x y, same (mk x) (mk y) <-> gb_same x y) -> (R (mk g) (mk h) <-> Rg g h).
Proof.
  intros Hb Hs. unfold R, Rg, okb. rewrite !Hb, Hs. split.
  - intros (S & O1 & O2). inversion O1; inversion O2; subst. tauto.
  - intros (S & O1 & O2). split; [exact S|split; constructor; auto].
Qed.
Lemma R_bool g h : R (BBool g) (BBool h) <-> Rg g h.
Proof. apply (R_leaf1 BBool); intros; reflexivity. Qed.
Lemma R_int g h : R (BInt g) (BInt h) <-> Rg g h.
Proof. apply (R_leaf1 BInt); intros; reflexivity. Qed.
Lemma R_float g h : R (BFloat g) (BFloat h) <-> Rg g h.
Proof. apply (R_leaf1 BFloat); intros; reflexivity. Qed.
Lemma R_unknown n m : R (BUnknown n) (BUnknown m) <-> n = m.
Proof. unfold R, okb. cbn. split; [tauto|intro; repeat split; auto]. Qed.
Lemma R_string e a b e' a' b' : R (BString e a b) (BString e' a' b') <-> e = e' /\ Rg a a' /\ Rg b b'.
Proof.
  unfold R, Rg, okb. cbn [same bufs]. split.
  - intros ((-> & S1 & S2) & O1 & O2). inversion O1 as [|? ? A1 B1]; inversion B1; inversion O2 as [|? ? A2 B2]; inversion B2; subst. tauto.
  - intros (-> & (S1 & A1 & A2) & (S2 & B1 & B2)). split; [tauto|split; repeat (constructor; auto)].
Qed.
Lemma R_option i c i' c' : R (BOption i c) (BOption i' c') <-> Rg i i' /\ R c c'.
Proof.
  unfold R, Rg, okb. cbn [same bufs]. split.
  - intros ((S1 & S2) & O1 & O2). inversion O1; inversion O2; subst. tauto.
  - intros ((S1 & A1 & A2) & (S2 & B1 & B2)). split; [tauto|split; constructor; auto].
Qed.
Lemma R_list a c bg a' c' bg' : R (BList a c bg) (BList a' c' bg') <-> Rg a a' /\ R c c' /\ bg = bg'.
Proof.
  unfold R, Rg, okb. cbn [same bufs]. split.
  - intros ((S1 & S2 & ->) & O1 & O2). inversion O1; inversion O2; subst. tauto.
  - intros ((S1 & A1 & A2) & (S2 & B1 & B2) & ->). split; [tauto|split; constructor; auto].
Qed.
Lemma R_record cs ks rn np len bg ni ntt cs' ks' rn' np' len' bg' ni' ntt' :
  R (BRecord cs ks rn np len bg ni ntt) (BRecord cs' ks' rn' np' len' bg' ni' ntt') <->
  Rl cs cs' /\ ks = ks' /\ rn = rn' /\ np = np' /\ len = len' /\ bg = bg' /\ ni = ni' /\ ntt = ntt'.
Proof.
  unfold R, okb. cbn [same bufs]. rewrite all_Forall2, !okb_flat, Rl_iff. tauto.
Qed.
Lemma R_tuple cs len bg ni cs' len' bg' ni' :
  R (BTuple cs len bg ni) (BTuple cs' len' bg' ni') <-> Rl cs cs' /\ len = len' /\ bg = bg' /\ ni = ni'.
Proof.
  unfold R, okb. cbn [same bufs]. rewrite all_Forall2, !okb_flat, Rl_iff. tauto.
Qed.
Lemma R_union t i cs cur t' i' cs' cur' :
  R (BUnion t i cs cur) (BUnion t' i' cs' cur') <-> Rg t t' /\ Rg i i' /\ Rl cs cs' /\ cur = cur'.
Proof.
  unfold R, Rg, okb. cbn [same bufs]. rewrite all_Forall2, Rl_iff. split.
  - intros ((S1 & S2 & S3 & ->) & O1 & O2).
    inversion O1 as [|? ? A1 B1]; inversion B1 as [|? ? A2 C1]; inversion O2 as [|? ? A3 B2]; inversion B2 as [|? ? A4 C2]; subst.
    apply okb_flat in C1. apply okb_flat in C2. tauto.
  - intros ((S1 & A1 & A2) & (S2 & B1 & B2) & (S3 & C1 & C2) & ->).
    split; [tauto|split; constructor; auto; constructor; auto; now apply okb_flat].
Qed.

Lemma Rg_len g h : Rg g h -> glen g = glen h.
Proof. intros ((_ & N) & _). exact N. Qed.

Lemma Rl_length cs cs' : Rl cs cs' -> length cs = length cs'.
Proof. induction 1; cbn; auto. Qed.
Lemma Rl_zlen cs cs' : Rl cs cs' -> zlen cs = zlen cs'.
Proof. intro H. unfold zlen. now rewrite (Rl_length _ _ H). Qed.

Lemma R_blen b1 : forall b2, R b1 b2 -> blen b1 = blen b2.
Proof.
  destruct b1; intros [] H; try (destruct H as [[] _]; fail); cbn [blen].
  - now apply R_unknown in H.
  - apply R_bool in H. now apply Rg_len.
  - apply R_int in H. now apply Rg_len.
  - apply R_float in H. now apply Rg_len.
  - apply R_string in H. destruct H as (_ & H & _). now rewrite (Rg_len _ _ H).
  - apply R_option in H. destruct H as (H & _). now apply Rg_len.
  - apply R_list in H. destruct H as (H & _). now rewrite (Rg_len _ _ H).
  - apply R_record in H. destruct H as (_ & _ & _ & _ & -> & _). reflexivity.
  - apply R_tuple in H. destruct H as (_ & -> & _). reflexivity.
  - apply R_union in H. destruct H as (H & _). now apply Rg_len.
Qed.

Lemma R_active b1 : forall b2, R b1 b2 -> active b1 = active b2.
Proof.
  induction b1; intros [] H; try (destruct H as [[] _]; fail); cbn [active]; auto.
  - apply R_option in H. destruct H as (_ & H). auto.
  - apply R_list in H. tauto.
  - apply R_record in H. destruct H as (_ & _ & _ & _ & _ & -> & _). reflexivity.
  - apply R_tuple in H. destruct H as (_ & _ & -> & _). reflexivity.
  - apply R_union in H. destruct H as (_ & _ & _ & ->). reflexivity.
Qed.

(* ------------------------------------------------------------------ buffer operations *)
Section Ops.
Variables o1 o2 : opts.
Hypothesis H1 : good_opts o1.
Hypothesis H2 : good_opts o2.

Lemma Rg_make pre n : (0 <= n -> zlen pre = n) -> Rrg (gb_make o1 pre n) (gb_make o2 pre n).
Proof.
  intro Hn. destruct (Z.ltb_spec n 0) as [Hl|Hl].
  - unfold gb_make. replace (n <? 0) with true by (symmetry; apply Z.ltb_lt; lia). reflexivity.
  - destruct (gb_make_ok o1 pre n H1 (Hn Hl)) as (g & E & W & L & N & _).
    destruct (gb_make_ok o2 pre n H2 (Hn Hl)) as (h & E' & W' & L' & N' & _).
    rewrite E, E'. cbn. split; [split; congruence|split; assumption].
Qed.
Lemma Rg_empty : Rrg (gb_empty o1) (gb_empty o2).
Proof. apply Rg_make. reflexivity. Qed.
Lemma Rg_full v n : Rrg (gb_full o1 v n) (gb_full o2 v n).
Proof. apply Rg_make. apply zlen_fill. Qed.
Lemma Rg_arange n : Rrg (gb_arange o1 n) (gb_arange o2 n).
Proof. apply Rg_make. apply zlen_iota. Qed.
Lemma Rg_clear g h : Rrg (gb_clear o1 g) (gb_clear o2 h).
Proof. apply Rg_empty. Qed.

Lemma Rg_append g h x : Rg g h -> Rrg (gb_append o1 g x) (gb_append o2 h x).
Proof.
  intros ((L & N) & W & W').
  destruct (gb_append_ok o1 g x H1 W) as (g' & E & Wg & Lg & Ng & _).
  destruct (gb_append_ok o2 h x H2 W') as (h' & E' & Wh & Lh & Nh & _).
  rewrite E, E'. cbn. split; [split; congruence|split; assumption].
Qed.
Lemma Rg_extend xs g h : Rg g h -> Rrg (gb_extend o1 g xs) (gb_extend o2 h xs).
Proof.
  intros ((L & N) & W & W').
  destruct (gb_extend_ok o1 xs g H1 W) as (g' & E & Wg & Lg & Ng).
  destruct (gb_extend_ok o2 xs h H2 W') as (h' & E' & Wh & Lh & Nh).
  rewrite E, E'. cbn. split; [split; congruence|split; assumption].
Qed.
Lemma Rg_convert g h : Rg g h -> Rrg (gb_convert o1 g) (gb_convert o2 h).
Proof.
  intros ((L & N) & W & W').
  destruct (gb_convert_ok o1 g H1 W) as (g' & E & Wg & Lg & Ng & _).
  destruct (gb_convert_ok o2 h H2 W') as (h' & E' & Wh & Lh & Nh & _).
  rewrite E, E'. cbn. split; [split; congruence|split; assumption].
Qed.

Lemma RS_withgb r1 r2 s1 s2 k1 k2 :
  Rrg r1 r2 -> R s1 s2 -> (forall g h, Rg g h -> RS (k1 g) (k2 h)) -> RS (withgb r1 s1 k1) (withgb r2 s2 k2).
Proof. intros Hr Hs Hk. destruct r1, r2; cbn in *; try contradiction; auto. Qed.
Lemma RS_withb r1 r2 s1 s2 k1 k2 :
  Rrb r1 r2 -> R s1 s2 -> (forall g h, R g h -> RS (k1 g) (k2 h)) -> RS (withb r1 s1 k1) (withb r2 s2 k2).
Proof. intros Hr Hs Hk. destruct r1, r2; cbn in *; try contradiction; auto. Qed.

Lemma RS_mu r1 r2 k1 k2 : RS r1 r2 -> (forall x y, R x y -> R (k1 x) (k2 y)) -> RS (mu r1 k1) (mu r2 k2).
Proof.
  intros Hr Hk. destruct r1 as [s r|e s], r2 as [s' r'|e' s']; cbn in *; try contradiction.
  - destruct Hr as [Hs Ho]. split; [|exact I]. apply Hk. destruct r, r'; cbn in *; try contradiction; auto.
  - destruct Hr as [-> Hs]. auto.
Qed.
Lemma RS_dr r1 r2 k1 k2 : RS r1 r2 -> (forall x y, R x y -> R (k1 x) (k2 y)) -> RS (dr r1 k1) (dr r2 k2).
Proof.
  intros Hr Hk. destruct r1 as [s r|e s], r2 as [s' r'|e' s']; cbn in *; try contradiction.
  - destruct Hr as [Hs Ho]. split; [|exact I]. auto.
  - destruct Hr as [-> Hs]. auto.
Qed.

Lemma Rrb_bind_gb (r1 r2 : res gb) (k1 k2 : gb -> res builder) :
  Rrg r1 r2 -> (forall g h, Rg g h -> Rrb (k1 g) (k2 h)) -> Rrb (do g <- r1; k1 g) (do g <- r2; k2 g).
Proof. intros Hr Hk. destruct r1, r2; cbn in *; try contradiction; auto. Qed.

Lemma Rrb_string_after e a b a' b' s :
  Rg a a' -> Rg b b' -> Rrb (string_after o1 e a b s) (string_after o2 e a' b' s).
Proof.
  intros Ha Hb. unfold string_after. apply Rrb_bind_gb; [now apply Rg_extend|]. intros c c' Hc.
  rewrite (Rg_len _ _ Hc). apply Rrb_bind_gb; [now apply Rg_append|]. intros f f' Hf. cbn. apply R_string. auto.
Qed.

Lemma Rl_repeat_unknown n : Rl (repeat (BUnknown 0) n) (repeat (BUnknown 0) n).
Proof. induction n; constructor; auto. apply R_unknown. reflexivity. Qed.

Lemma Rrb_fresh_after c : Rrb (fresh_after o1 c) (fresh_after o2 c).
Proof.
  destruct c; cbn [fresh_after]; try reflexivity.
  - apply Rrb_bind_gb; [apply Rg_empty|]. intros g h Hg. apply Rrb_bind_gb; [now apply Rg_append|]. intros. cbn. now apply R_bool.
  - apply Rrb_bind_gb; [apply Rg_empty|]. intros g h Hg. apply Rrb_bind_gb; [now apply Rg_append|]. intros. cbn. now apply R_int.
  - apply Rrb_bind_gb; [apply Rg_empty|]. intros g h Hg. apply Rrb_bind_gb; [now apply Rg_append|]. intros. cbn. now apply R_float.
  - apply Rrb_bind_gb; [apply Rg_empty|]. intros g h Hg. apply Rrb_bind_gb; [now apply Rg_append|]. intros g0 h0 Hg0.
    apply Rrb_bind_gb; [apply Rg_empty|]. intros g1 h1 Hg1. now apply Rrb_string_after.
  - apply Rrb_bind_gb; [apply Rg_empty|]. intros g h Hg. apply Rrb_bind_gb; [now apply Rg_append|]. intros g0 h0 Hg0. cbn.
    apply R_list. split; [exact Hg0|split; [apply R_unknown; reflexivity|reflexivity]].
  - destruct (n <? 0); [reflexivity|]. cbn. apply R_tuple. repeat split; auto. apply Rl_repeat_unknown.
  - cbn. apply R_record. repeat split; auto. constructor.
Qed.

Lemma RS_option_null b b' : R b b' -> RS (option_null o1 b) (option_null o2 b').
Proof.
  intro Hb. unfold option_null. rewrite (R_blen _ _ Hb).
  apply RS_withgb; [apply Rg_arange|exact Hb|]. intros g h Hg.
  apply RS_withgb; [now apply Rg_append|exact Hb|]. intros g' h' Hg'. cbn. split; [exact Hb|]. apply R_option. auto.
Qed.

Lemma RS_union_wrap b b' c : R b b' -> RS (union_wrap o1 b c) (union_wrap o2 b' c).
Proof.
  intro Hb. unfold union_wrap. rewrite (R_blen _ _ Hb).
  apply RS_withgb; [apply Rg_full|exact Hb|]. intros t t' Ht.
  apply RS_withgb; [apply Rg_arange|exact Hb|]. intros i i' Hi.
  apply RS_withb; [apply Rrb_fresh_after|exact Hb|]. intros nb nb' Hn.
  assert (forall t t' i i' cur, Rg t t' -> Rg i i' -> R (BUnion t i [b; nb] cur) (BUnion t' i' [b'; nb'] cur)) as G.
  { intros. apply R_union. split; [assumption|split; [assumption|split; [|reflexivity]]].
    constructor; auto. }
  destruct (kind_of c); try (cbn; split; [exact Hb|now apply G]).
  apply RS_withgb; [now apply Rg_append|exact Hb|]. intros t1 t1' Ht1.
  apply RS_withgb; [now apply Rg_append|exact Hb|]. intros i1 i1' Hi1. cbn. split; [exact Hb|now apply G].
Qed.

Lemma RS_unknown_start n c : RS (unknown_start o1 n c) (unknown_start o2 n c).
Proof.
  unfold unknown_start. assert (R (BUnknown n) (BUnknown n)) as Hu by (apply R_unknown; reflexivity).
  apply RS_withb; [apply Rrb_fresh_after|exact Hu|]. intros nb nb' Hn.
  destruct (n =? 0); [cbn; auto|].
  apply RS_withgb; [apply Rg_full|exact Hu|]. intros i i' Hi.
  destruct (kind_of c); try (cbn; split; [exact Hu|apply R_option; auto]).
  apply RS_withgb; [now apply Rg_append|exact Hu|]. intros i1 i1' Hi1. cbn. split; [exact Hu|apply R_option; auto].
Qed.

(* ------------------------------------------------------------------ vectors of builders *)
Lemma Rl_nth_z cs cs' i : Rl cs cs' ->
  match nth_z cs i, nth_z cs' i with Some x, Some y => R x y | None, None => True | _, _ => False end.
Proof.
  intro H. unfold nth_z. destruct (i <? 0); [exact I|]. generalize (Z.to_nat i) as k.
  induction H as [|x y t u Hxy _ IH]; intros [|k]; cbn [nth_error]; auto. apply IH.
Qed.

Lemma Rl_at_nth (f f' : builder -> sres) cs cs' : Rl cs cs' -> forall i,
  (forall x y, R x y -> In x cs -> RS (f x) (f' y)) ->
  match at_nth f cs i, at_nth f' cs' i with Some x, Some y => RS x y | None, None => True | _, _ => False end.
Proof.
  induction 1 as [|x y t u Hxy _ IH]; intros [|k] Hf; cbn; auto.
  - apply Hf; auto. now left.
  - apply IH. intros; apply Hf; auto. now right.
Qed.

Lemma Rl_upd cs cs' i x y : Rl cs cs' -> R x y -> Rl (upd_nth cs i x) (upd_nth cs' i y).
Proof.
  intros H Hxy. revert i. induction H as [|a b t u Hab Htu IH]; intros [|k]; cbn [upd_nth].
  - constructor.
  - constructor.
  - constructor; auto.
  - constructor; auto. apply IH.
Qed.

Lemma Rl_snoc cs cs' x y : Rl cs cs' -> R x y -> Rl (cs ++ [x]) (cs' ++ [y]).
Proof. intros H Hxy. apply Forall2_app; [exact H|]. constructor; [exact Hxy|constructor]. Qed.

Lemma Rl_find (f f' : builder -> sres) (p : builder -> bool) cs cs' : Rl cs cs' -> forall i0,
  (forall x y, R x y -> p x = p y) ->
  (forall x y, R x y -> In x cs -> RS (f x) (f' y)) ->
  match find_app f p cs i0, find_app f' p cs' i0 with
  | Some (i, x, r), Some (i', y, r') => i = i' /\ R x y /\ RS r r'
  | None, None => True
  | _, _ => False
  end.
Proof.
  induction 1 as [|x y t u Hxy _ IH]; intros i0 Hp Hf; cbn; auto.
  rewrite <- (Hp x y Hxy). destruct (p x).
  - split; [reflexivity|split; [exact Hxy|apply Hf; auto; now left]].
  - apply IH; auto. intros; apply Hf; auto. now right.
Qed.

Lemma Rl_find_id (p : builder -> bool) cs cs' : Rl cs cs' -> forall i0,
  (forall x y, R x y -> p x = p y) ->
  match find_app (fun x => x) p cs i0, find_app (fun x => x) p cs' i0 with
  | Some (i, x, _), Some (i', y, _) => i = i' /\ R x y
  | None, None => True
  | _, _ => False
  end.
Proof.
  induction 1 as [|x y t u Hxy _ IH]; intros i0 Hp; cbn; auto.
  rewrite <- (Hp x y Hxy). destruct (p x); [split; [reflexivity|exact Hxy]|]. apply IH. exact Hp.
Qed.

Lemma Rl_fill (f f' : builder -> sres) len cs cs' : Rl cs cs' ->
  (forall x y, R x y -> In x cs -> RS (f x) (f' y)) ->
  Rl (fst (fill_loop f len cs)) (fst (fill_loop f' len cs')) /\ snd (fill_loop f len cs) = snd (fill_loop f' len cs').
Proof.
  induction 1 as [|x y t u Hxy Htu IH]; intro Hf; cbn [fill_loop]; [split; [constructor|reflexivity]|].
  rewrite <- (R_blen _ _ Hxy).
  assert (match (if blen x =? len then match f x with SOk c' ret => (pick c' ret, None) | SErr e c' => (c', Some e) end else (x, None)),
                (if blen x =? len then match f' y with SOk c' ret => (pick c' ret, None) | SErr e c' => (c', Some e) end else (y, None))
          with (c1, e1), (c2, e2) => R c1 c2 /\ e1 = e2 end) as G.
  { destruct (blen x =? len); [|auto]. pose proof (Hf x y Hxy (or_introl eq_refl)) as Hr.
    destruct (f x) as [s r|e s], (f' y) as [s' r'|e' s']; cbn in Hr; try contradiction.
    - destruct Hr as [Hs Ho]. split; [|reflexivity]. destruct r, r'; cbn in *; try contradiction; auto.
    - destruct Hr as [-> Hs]. auto. }
  destruct (if blen x =? len then _ else _) as [c1 e1]. destruct (if blen x =? len then _ else _) as [c2 e2].
  destruct G as [Hc ->]. destruct e2.
  - cbn. split; [constructor; auto|reflexivity].
  - rewrite <- (R_blen _ _ Hc). destruct (negb (blen c1 =? len + 1)).
    + cbn. split; [constructor; auto|reflexivity].
    + destruct IH as [I1 I2]; [intros; apply Hf; auto; now right|].
      destruct (fill_loop f len t) as [t1 e1]. destruct (fill_loop f' len u) as [u1 e1']. cbn in *. subst. split; [constructor; auto|reflexivity].
Qed.

Lemma takes_R c x y : R x y -> takes c x = takes c y.
Proof.
  intro H. destruct c, x, y; try reflexivity; try (destruct H as [[] _]; fail); cbn [takes].
  - apply R_string in H. destruct H as (-> & _). reflexivity.
  - apply R_tuple in H. destruct H as (Hl & -> & _). now rewrite (Rl_zlen _ _ Hl).
  - apply R_record in H. destruct H as (_ & _ & -> & -> & -> & _). reflexivity.
Qed.
Lemma is_int_R x y : R x y -> is_int x = is_int y.
Proof. intro H. destruct x, y; try reflexivity; destruct H as [[] _]. Qed.

End Ops.

(* ------------------------------------------------------------------ the simulation *)
Section Sim.
Variables o1 o2 : opts.
Hypothesis H1 : good_opts o1.
Hypothesis H2 : good_opts o2.

Lemma R_pick s s' r r' : R s s' -> Ro r r' -> R (pick s r) (pick s' r').
Proof. intros Hs Hr. destruct r, r'; cbn in *; try contradiction; auto. Qed.

Lemma here_R cs cs' ni : Rl cs cs' ->
  (if ni =? -1 then Some true else match nth_z cs ni with Some x => Some (negb (active x)) | None => None end) =
  (if ni =? -1 then Some true else match nth_z cs' ni with Some x => Some (negb (active x)) | None => None end).
Proof.
  intro H. destruct (ni =? -1); [reflexivity|]. pose proof (Rl_nth_z cs cs' ni H) as G.
  destruct (nth_z cs ni), (nth_z cs' ni); try contradiction; [|reflexivity]. now rewrite (R_active _ _ G).
Qed.

(* contents_[i]->m() with the parent rebuilt around the updated vector *)
Lemma RS_child c cs cs' ni (k k' : list builder -> builder) b b' (site : sres -> (builder -> builder) -> sres) always :
  (site = mu \/ site = dr) ->
  Rl cs cs' -> (forall x y, R x y -> In x cs -> RS (step o1 x c) (step o2 y c)) ->
  (forall l l', Rl l l' -> R (k l) (k' l')) -> R b b' ->
  RS (match nth_z cs ni, at_nth (fun x => step o1 x c) cs (Z.to_nat ni) with
      | Some x, Some r => if always || active x then dr r (fun y => k (upd_nth cs (Z.to_nat ni) y))
                          else site r (fun y => k (upd_nth cs (Z.to_nat ni) y))
      | _, _ => SErr EOob b
      end)
     (match nth_z cs' ni, at_nth (fun x => step o2 x c) cs' (Z.to_nat ni) with
      | Some x, Some r => if always || active x then dr r (fun y => k' (upd_nth cs' (Z.to_nat ni) y))
                          else site r (fun y => k' (upd_nth cs' (Z.to_nat ni) y))
      | _, _ => SErr EOob b'
      end).
Proof.
  intros Hs Hl Hf Hk Hb.
  pose proof (Rl_nth_z cs cs' ni Hl) as G1.
  pose proof (Rl_at_nth (fun x => step o1 x c) (fun x => step o2 x c) cs cs' Hl (Z.to_nat ni) Hf) as G2.
  assert (RS (SErr EOob b) (SErr EOob b')) as E by (split; [reflexivity|exact Hb]).
  destruct (nth_z cs ni) as [x|], (nth_z cs' ni) as [y|]; try contradiction; [|exact E].
  destruct (at_nth _ cs _) as [r|], (at_nth _ cs' _) as [r'|]; try contradiction; [|exact E].
  rewrite <- (R_active _ _ G1).
  assert (forall u v, R u v -> R (k (upd_nth cs (Z.to_nat ni) u)) (k' (upd_nth cs' (Z.to_nat ni) v))) as K
    by (intros; apply Hk; now apply Rl_upd).
  destruct (always || active x); [now apply RS_dr|]. destruct Hs as [-> | ->]; [now apply RS_mu|now apply RS_dr].
Qed.

Ltac err HR := cbn [RS]; split; [reflexivity|exact HR].

Theorem step_R b1 : forall b2 c, R b1 b2 -> RS (step o1 b1 c) (step o2 b2 c).
Proof.
  induction b1 as [n|g|g|g|e a b|idx ct IHc|offs ct begun IHc|cs ks rn np len bg ni ntt IH|cs len bg ni IH|tags idx cs cur IH]
    using builder_ind'; intros b2 c HR; destruct b2; try (destruct HR as [[] _]; fail).
  - (* Unknown *)
    pose proof HR as E. apply R_unknown in E. subst nullcount. cbn [step].
    destruct (kind_of c); try err HR; try apply RS_unknown_start; auto.
    cbn [RS Ro]. split; [apply R_unknown; reflexivity|exact I].
  - (* Bool *)
    pose proof HR as Hg. apply R_bool in Hg.
    destruct c; cbn [step kind_of]; try err HR; try (apply RS_option_null; assumption); try (apply RS_union_wrap; assumption).
    apply RS_withgb; [now apply Rg_append|exact HR|]. intros g' h' Hg'. cbn [RS Ro]. split; [now apply R_bool|exact I].
  - (* Int *)
    pose proof HR as Hg. apply R_int in Hg.
    destruct c; cbn [step kind_of]; try err HR; try (apply RS_option_null; assumption); try (apply RS_union_wrap; assumption).
    + apply RS_withgb; [now apply Rg_append|exact HR|]. intros g' h' Hg'. cbn [RS Ro]. split; [now apply R_int|exact I].
    + apply RS_withgb; [now apply Rg_convert|exact HR|]. intros gf hf Hf.
      apply RS_withgb; [now apply Rg_append|exact HR|]. intros g' h' Hg'. cbn [RS Ro]. split; [exact HR|now apply R_float].
  - (* Float *)
    pose proof HR as Hg. apply R_float in Hg.
    destruct c; cbn [step kind_of]; try err HR; try (apply RS_option_null; assumption); try (apply RS_union_wrap; assumption).
    + apply RS_withgb; [now apply Rg_append|exact HR|]. intros g' h' Hg'. cbn [RS Ro]. split; [now apply R_float|exact I].
    + apply RS_withgb; [now apply Rg_append|exact HR|]. intros g' h' Hg'. cbn [RS Ro]. split; [now apply R_float|exact I].
  - (* String *)
    pose proof HR as Hs. apply R_string in Hs. destruct Hs as (<- & Ha & Hb).
    destruct c; cbn [step kind_of]; try err HR; try (apply RS_option_null; assumption); try (apply RS_union_wrap; assumption).
    destruct (Bool.eqb e _); [|apply RS_union_wrap; assumption].
    apply RS_withb; [now apply Rrb_string_after|exact HR|]. intros x y Hxy. cbn [RS Ro]. split; [exact Hxy|exact I].
  - (* Option *)
    pose proof HR as Ho. apply R_option in Ho. destruct Ho as (Hi & Hc).
    specialize (IHc b2 c Hc). cbn [step]. rewrite <- (R_active _ _ Hc), <- (R_blen _ _ Hc).
    assert (forall i i' x y, Rg i i' -> R x y -> R (BOption i x) (BOption i' y)) as K by (intros; apply R_option; auto).
    destruct (active ct); cbn [negb].
    + destruct (kind_of c); try (apply RS_dr; [exact IHc|intros; now apply K]).
      destruct (step o1 ct c) as [s r|e s], (step o2 b2 c) as [s' r'|e' s']; cbn [RS] in IHc; try contradiction.
      * destruct IHc as [Hs Hr]. rewrite <- (R_blen _ _ Hs). destruct (blen s =? blen ct).
        -- cbn [RS Ro]. split; [now apply K|exact I].
        -- apply RS_withgb; [now apply Rg_append|now apply K|]. intros i1 i1' Hi1. cbn [RS Ro]. split; [now apply K|exact I].
      * destruct IHc as [-> Hs]. split; [reflexivity|now apply K].
    + destruct (kind_of c); try err HR.
      * apply RS_withgb; [now apply Rg_append|exact HR|]. intros i1 i1' Hi1. cbn [RS Ro]. split; [now apply K|exact I].
      * destruct (step o1 ct c) as [s r|e s], (step o2 b2 c) as [s' r'|e' s']; cbn [RS] in IHc; try contradiction.
        -- destruct IHc as [Hs Hr]. pose proof (R_pick _ _ _ _ Hs Hr) as Hp.
           apply RS_withgb; [now apply Rg_append|now apply K|]. intros i1 i1' Hi1. cbn [RS Ro]. split; [now apply K|exact I].
        -- destruct IHc as [-> Hs]. split; [reflexivity|now apply K].
      * apply RS_mu; [exact IHc|intros; now apply K].
  - (* List *)
    pose proof HR as Hl. apply R_list in Hl. destruct Hl as (Ha & Hc & <-).
    specialize (IHc b2 c Hc). cbn [step]. rewrite <- (R_active _ _ Hc), <- (R_blen _ _ Hc).
    assert (forall a a' x y bg, Rg a a' -> R x y -> R (BList a x bg) (BList a' y bg)) as K by (intros; apply R_list; auto).
    destruct begun; cbn [negb].
    + destruct c; try (apply RS_mu; [exact IHc|intros; now apply K]); try (apply RS_dr; [exact IHc|intros; now apply K]).
      destruct (active ct); cbn [negb]; [apply RS_mu; [exact IHc|intros; now apply K]|].
      apply RS_withgb; [now apply Rg_append|exact HR|]. intros a1 a1' Ha1. cbn [RS Ro]. split; [now apply K|exact I].
    + destruct c; cbn [kind_of]; try err HR; try (apply RS_option_null; assumption); try (apply RS_union_wrap; assumption).
      cbn [RS Ro]. split; [now apply K|exact I].
  - (* Record *)
    pose proof HR as Hr. apply R_record in Hr. destruct Hr as (Hl & <- & <- & <- & <- & <- & <- & <-).
    assert (forall c, forall x y, R x y -> In x cs -> RS (step o1 x c) (step o2 y c)) as F.
    { intros c0 x y Hxy Hin. rewrite Forall_forall in IH. now apply IH. }
    assert (forall l l' k1 r1 n1 l1 b1 i1 t1, Rl l l' -> R (BRecord l k1 r1 n1 l1 b1 i1 t1) (BRecord l' k1 r1 n1 l1 b1 i1 t1)) as K
      by (intros; apply R_record; repeat split; auto).
    assert (forall site always, site = mu \/ site = dr ->
              RS (match nth_z cs ni, at_nth (fun x => step o1 x c) cs (Z.to_nat ni) with
                  | Some x, Some r => if always || active x then dr r (fun y => BRecord (upd_nth cs (Z.to_nat ni) y) ks rn np len bg ni ntt)
                                      else site r (fun y => BRecord (upd_nth cs (Z.to_nat ni) y) ks rn np len bg ni ntt)
                  | _, _ => SErr EOob (BRecord cs ks rn np len bg ni ntt) end)
                 (match nth_z contents ni, at_nth (fun x => step o2 x c) contents (Z.to_nat ni) with
                  | Some x, Some r => if always || active x then dr r (fun y => BRecord (upd_nth contents (Z.to_nat ni) y) ks rn np len bg ni ntt)
                                      else site r (fun y => BRecord (upd_nth contents (Z.to_nat ni) y) ks rn np len bg ni ntt)
                  | _, _ => SErr EOob (BRecord contents ks rn np len bg ni ntt) end)) as CHILD.
    { intros site always Hs.
      apply (RS_child c cs contents ni (fun l => BRecord l ks rn np len bg ni ntt) (fun l => BRecord l ks rn np len bg ni ntt)); auto. }
    destruct c; cbn [step];
      try (destruct (negb bg); [first [err HR|apply RS_option_null; assumption|apply RS_union_wrap; assumption]|];
           destruct (ni =? -1); [err HR|]; apply CHILD; auto).
    + (* beginrecord *)
      destruct (if len =? -1 then _ else _) as [[len1 rn1] np1].
      assert (R (BRecord cs ks rn1 np1 len1 bg ni ntt) (BRecord contents ks rn1 np1 len1 bg ni ntt)) as HR1 by now apply K.
      destruct (negb bg && _); [cbn [RS Ro]; split; [now apply K|exact I]|].
      destruct (negb bg); [now apply RS_union_wrap|].
      destruct (ni =? -1); [err HR1|].
      pose proof (Rl_nth_z cs contents ni Hl) as G1.
      pose proof (Rl_at_nth (fun x => step o1 x (CBeginRecord nm)) (fun x => step o2 x (CBeginRecord nm)) cs contents Hl (Z.to_nat ni) (F _)) as G2.
      destruct (nth_z cs ni) as [x|], (nth_z contents ni) as [y|]; try contradiction; [|err HR1].
      destruct (at_nth _ cs _) as [r|], (at_nth _ contents _) as [r'|]; try contradiction; [|err HR1].
      rewrite <- (R_active _ _ G1).
      destruct (active x); [apply RS_dr|apply RS_mu]; auto; intros; apply K; now apply Rl_upd.
    + (* field *)
      destruct (negb bg); [err HR|]. rewrite <- (here_R cs contents ni Hl).
      destruct (if ni =? -1 then _ else _) as [[|]|]; [|apply CHILD; auto|err HR].
      destruct (rr_find k ks ntt); [cbn [RS Ro]; split; [now apply K|exact I]|].
      apply RS_withb; [|exact HR|].
      * destruct (len =? 0); [cbn; apply R_unknown; reflexivity|].
        apply Rrb_bind_gb; [now apply Rg_full|]. intros g h Hg. cbn. apply R_option. split; [exact Hg|apply R_unknown; reflexivity].
      * intros x y Hxy. cbn [RS Ro]. split; [|exact I]. apply K. now apply Rl_snoc.
    + (* endrecord *)
      destruct (negb bg); [err HR|]. rewrite <- (here_R cs contents ni Hl).
      destruct (if ni =? -1 then _ else _) as [[|]|]; [|apply CHILD; auto|err HR].
      destruct (Rl_fill (fun x => step o1 x CNull) (fun x => step o2 x CNull) len cs contents Hl (F _)) as [G1 G2].
      destruct (fill_loop (fun x => step o1 x CNull) len cs) as [l1 e1], (fill_loop (fun x => step o2 x CNull) len contents) as [l2 e2].
      cbn [fst snd] in *. subst e2. destruct e1; [split; [reflexivity|now apply K]|cbn [RS Ro]; split; [now apply K|exact I]].
  - (* Tuple *)
    pose proof HR as Hr. apply R_tuple in Hr. destruct Hr as (Hl & <- & <- & <-).
    assert (forall c, forall x y, R x y -> In x cs -> RS (step o1 x c) (step o2 y c)) as F.
    { intros c0 x y Hxy Hin. rewrite Forall_forall in IH. now apply IH. }
    assert (forall l l' l1 b1 i1, Rl l l' -> R (BTuple l l1 b1 i1) (BTuple l' l1 b1 i1)) as K
      by (intros; apply R_tuple; repeat split; auto).
    assert (forall site always, site = mu \/ site = dr ->
              RS (match nth_z cs ni, at_nth (fun x => step o1 x c) cs (Z.to_nat ni) with
                  | Some x, Some r => if always || active x then dr r (fun y => BTuple (upd_nth cs (Z.to_nat ni) y) len bg ni)
                                      else site r (fun y => BTuple (upd_nth cs (Z.to_nat ni) y) len bg ni)
                  | _, _ => SErr EOob (BTuple cs len bg ni) end)
                 (match nth_z contents ni, at_nth (fun x => step o2 x c) contents (Z.to_nat ni) with
                  | Some x, Some r => if always || active x then dr r (fun y => BTuple (upd_nth contents (Z.to_nat ni) y) len bg ni)
                                      else site r (fun y => BTuple (upd_nth contents (Z.to_nat ni) y) len bg ni)
                  | _, _ => SErr EOob (BTuple contents len bg ni) end)) as CHILD.
    { intros site always Hs.
      apply (RS_child c cs contents ni (fun l => BTuple l len bg ni) (fun l => BTuple l len bg ni)); auto. }
    destruct c; cbn [step];
      try (destruct (negb bg); [first [err HR|apply RS_option_null; assumption|apply RS_union_wrap; assumption]|];
           destruct (ni =? -1); [err HR|]; apply CHILD; auto).
    + (* begintuple *)
      destruct (n <? 0); [err HR|].
      assert (Rl (if len =? -1 then cs ++ repeat (BUnknown 0) (Z.to_nat n) else cs)
                 (if len =? -1 then contents ++ repeat (BUnknown 0) (Z.to_nat n) else contents)) as Hl1.
      { destruct (len =? -1); [|exact Hl]. apply Forall2_app; [exact Hl|apply Rl_repeat_unknown]. }
      assert ((if len =? -1 then (cs ++ repeat (BUnknown 0) (Z.to_nat n), 0) else (cs, len)) =
              ((if len =? -1 then cs ++ repeat (BUnknown 0) (Z.to_nat n) else cs), (if len =? -1 then 0 else len))) as E1 by (destruct (len =? -1); reflexivity).
      assert ((if len =? -1 then (contents ++ repeat (BUnknown 0) (Z.to_nat n), 0) else (contents, len)) =
              ((if len =? -1 then contents ++ repeat (BUnknown 0) (Z.to_nat n) else contents), (if len =? -1 then 0 else len))) as E2 by (destruct (len =? -1); reflexivity).
      rewrite E1, E2. clear E1 E2.
      set (cs1 := if len =? -1 then cs ++ _ else cs) in *. set (cs2 := if len =? -1 then contents ++ _ else contents) in *.
      set (len1 := if len =? -1 then 0 else len).
      assert (R (BTuple cs1 len1 bg ni) (BTuple cs2 len1 bg ni)) as HR1 by now apply K.
      rewrite <- (Rl_zlen _ _ Hl1).
      destruct (negb bg && _); [cbn [RS Ro]; split; [now apply K|exact I]|].
      destruct (negb bg); [now apply RS_union_wrap|].
      destruct (ni =? -1); [err HR1|].
      pose proof (Rl_nth_z cs1 cs2 ni Hl1) as G1.
      pose proof (Rl_at_nth (fun x => step o1 x (CBeginTuple n)) (fun x => step o2 x (CBeginTuple n)) cs contents Hl (Z.to_nat ni) (F _)) as G2.
      destruct (nth_z cs1 ni) as [x|], (nth_z cs2 ni) as [y|]; try contradiction; [|err HR1].
      destruct (at_nth _ cs _) as [r|], (at_nth _ contents _) as [r'|]; try contradiction; [|err HR1].
      rewrite <- (R_active _ _ G1).
      destruct (active x); [apply RS_dr|apply RS_mu]; auto; intros; apply K; now apply Rl_upd.
    + (* index *)
      destruct (negb bg); [err HR|]. rewrite <- (here_R cs contents ni Hl).
      destruct (if ni =? -1 then _ else _) as [[|]|]; [|apply CHILD; auto|err HR].
      rewrite <- (Rl_zlen _ _ Hl). destruct ((i <? 0) || _); [err HR|cbn [RS Ro]; split; [now apply K|exact I]].
    + (* endtuple *)
      destruct (negb bg); [err HR|]. rewrite <- (here_R cs contents ni Hl).
      destruct (if ni =? -1 then _ else _) as [[|]|]; [|apply CHILD; auto|err HR].
      destruct (Rl_fill (fun x => step o1 x CNull) (fun x => step o2 x CNull) len cs contents Hl (F _)) as [G1 G2].
      destruct (fill_loop (fun x => step o1 x CNull) len cs) as [l1 e1], (fill_loop (fun x => step o2 x CNull) len contents) as [l2 e2].
      cbn [fst snd] in *. subst e2. destruct e1; [split; [reflexivity|now apply K]|cbn [RS Ro]; split; [now apply K|exact I]].
  - (* Union *)
    pose proof HR as Hr. apply R_union in Hr. destruct Hr as (Ht & Hi & Hl & <-).
    assert (forall c, forall x y, R x y -> In x cs -> RS (step o1 x c) (step o2 y c)) as F.
    { intros c0 x y Hxy Hin. rewrite Forall_forall in IH. now apply IH. }
    assert (forall t t' i i' l l' cu, Rg t t' -> Rg i i' -> Rl l l' -> R (BUnion t i l cu) (BUnion t' i' l' cu)) as K.
    { intros. apply R_union. split; [assumption|split; [assumption|split; [assumption|reflexivity]]]. }
    cbn [step]. destruct (negb (cur =? -1)).
    + (* active *)
      pose proof (Rl_nth_z cs contents cur Hl) as G1.
      pose proof (Rl_at_nth (fun x => step o1 x c) (fun x => step o2 x c) cs contents Hl (Z.to_nat cur) (F _)) as G2.
      destruct (nth_z cs cur) as [x|], (nth_z contents cur) as [y|]; try contradiction; [|err HR].
      destruct (at_nth _ cs _) as [r|], (at_nth _ contents _) as [r'|]; try contradiction; [|err HR].
      assert (forall u v, R u v -> Rl (upd_nth cs (Z.to_nat cur) u) (upd_nth contents (Z.to_nat cur) v)) as KU by (intros; now apply Rl_upd).
      destruct (kind_of c); try (apply RS_dr; [exact G2|intros; apply K; auto]).
      destruct r as [s rr|e s], r' as [s' rr'|e' s']; cbn [RS] in G2; try contradiction.
      * destruct G2 as [Hs _]. rewrite <- (R_blen _ _ Hs), <- (R_blen _ _ G1). destruct (blen s =? blen x).
        -- cbn [RS Ro]. split; [apply K; auto|exact I].
        -- apply RS_withgb; [now apply Rg_append|apply K; auto|]. intros t1 t1' Ht1.
           apply RS_withgb; [now apply Rg_append|apply K; auto|]. intros i1 i1' Hi1. cbn [RS Ro]. split; [apply K; auto|exact I].
      * destruct G2 as [-> Hs]. split; [reflexivity|apply K; auto].
    + destruct (kind_of c) eqn:Ek; try err HR; try (apply RS_option_null; assumption).
      * (* atom *)
        assert (forall i len0 l l', Rl l l' ->
                  RS (withgb (gb_append o1 tags (Z.of_nat i)) (BUnion tags idx l cur) (fun tags' =>
                      withgb (gb_append o1 idx len0) (BUnion tags' idx l cur) (fun idx' => SOk (BUnion tags' idx' l cur) None)))
                     (withgb (gb_append o2 tags0 (Z.of_nat i)) (BUnion tags0 index l' cur) (fun tags' =>
                      withgb (gb_append o2 index len0) (BUnion tags' index l' cur) (fun idx' => SOk (BUnion tags' idx' l' cur) None)))) as AFTER.
        { intros i len0 l l' Hll. apply RS_withgb; [now apply Rg_append|apply K; auto|]. intros t1 t1' Ht1.
          apply RS_withgb; [now apply Rg_append|apply K; auto|]. intros i1 i1' Hi1. cbn [RS Ro]. split; [apply K; auto|exact I]. }
        pose proof (Rl_find (fun x => step o1 x c) (fun x => step o2 x c) (takes c) cs contents Hl 0 (takes_R c) (F _)) as G.
        destruct (find_app _ _ cs 0) as [[[i x] r]|], (find_app _ _ contents 0) as [[[i' y] r']|]; try contradiction.
        -- destruct G as (<- & Hxy & Hrr). destruct r as [s rr|e s], r' as [s' rr'|e' s']; cbn [RS] in Hrr; try contradiction.
           ++ destruct Hrr as [Hs _]. rewrite <- (R_blen _ _ Hxy). apply AFTER. now apply Rl_upd.
           ++ destruct Hrr as [-> Hs]. split; [reflexivity|]. apply K; auto. now apply Rl_upd.
        -- assert (RS (withb (fresh_after o1 c) (BUnion tags idx cs cur) (fun nb =>
                         withgb (gb_append o1 tags (Z.of_nat (length cs))) (BUnion tags idx (cs ++ [nb]) cur) (fun tags' =>
                         withgb (gb_append o1 idx 0) (BUnion tags' idx (cs ++ [nb]) cur) (fun idx' => SOk (BUnion tags' idx' (cs ++ [nb]) cur) None))))
                      (withb (fresh_after o2 c) (BUnion tags0 index contents cur) (fun nb =>
                         withgb (gb_append o2 tags0 (Z.of_nat (length contents))) (BUnion tags0 index (contents ++ [nb]) cur) (fun tags' =>
                         withgb (gb_append o2 index 0) (BUnion tags' index (contents ++ [nb]) cur) (fun idx' => SOk (BUnion tags' idx' (contents ++ [nb]) cur) None))))) as FRESH.
           { apply RS_withb; [now apply Rrb_fresh_after|exact HR|]. intros nb nb' Hn. rewrite <- (Rl_length _ _ Hl).
             apply AFTER. now apply Rl_snoc. }
           destruct c; try discriminate Ek; try exact FRESH.
           pose proof (Rl_find_id is_int cs contents Hl 0 is_int_R) as G'.
           destruct (find_app (fun x => x) is_int cs 0) as [[[i x] r]|], (find_app (fun x => x) is_int contents 0) as [[[i' y] r']|]; try contradiction; [|exact FRESH].
           destruct G' as (<- & Hxy). destruct x, y; try (destruct Hxy as [[] _]; fail); try exact FRESH.
           apply R_int in Hxy.
           apply RS_withgb; [now apply Rg_convert|exact HR|]. intros gf hf Hf.
           assert (forall u v, Rg u v -> Rl (upd_nth cs i (BFloat u)) (upd_nth contents i (BFloat v))) as KF
             by (intros; apply Rl_upd; auto; now apply R_float).
           apply RS_withgb; [now apply Rg_append|apply K; auto|]. intros gf' hf' Hf'.
           rewrite <- (Rg_len _ _ Hf). apply AFTER. now apply KF.
      * (* begin *)
        pose proof (Rl_find (fun x => step o1 x c) (fun x => step o2 x c) (takes c) cs contents Hl 0 (takes_R c) (F _)) as G.
        destruct (find_app _ _ cs 0) as [[[i x] r]|], (find_app _ _ contents 0) as [[[i' y] r']|]; try contradiction.
        -- destruct G as (<- & Hxy & Hrr). destruct r as [s rr|e s], r' as [s' rr'|e' s']; cbn [RS] in Hrr; try contradiction.
           ++ destruct Hrr as [Hs _]. cbn [RS Ro]. split; [apply K; auto; now apply Rl_upd|exact I].
           ++ destruct Hrr as [-> Hs]. split; [reflexivity|]. apply K; auto. now apply Rl_upd.
        -- assert (RS (withb (fresh_after o1 c) (BUnion tags idx cs cur) (fun nb => SOk (BUnion tags idx (cs ++ [nb]) (Z.of_nat (length cs))) None))
                      (withb (fresh_after o2 c) (BUnion tags0 index contents cur) (fun nb => SOk (BUnion tags0 index (contents ++ [nb]) (Z.of_nat (length contents))) None))) as FRESH.
           { apply RS_withb; [now apply Rrb_fresh_after|exact HR|]. intros nb nb' Hn. rewrite <- (Rl_length _ _ Hl).
             cbn [RS Ro]. split; [apply K; auto; now apply Rl_snoc|exact I]. }
           destruct c; try discriminate Ek; try exact FRESH.
           destruct (n <? 0); [|exact FRESH]. split; [reflexivity|]. apply K; auto. apply Rl_snoc; auto.
           apply R_tuple. repeat split; auto. constructor.
Qed.

End Sim.

(* ------------------------------------------------------------------ sessions *)
Section Sessions.
Variables o1 o2 : opts.
Hypothesis H1 : good_opts o1.
Hypothesis H2 : good_opts o2.

Lemma Rrb_bind_b (r1 r2 : res builder) (k1 k2 : builder -> res builder) :
  Rrb r1 r2 -> (forall x y, R x y -> Rrb (k1 x) (k2 y)) -> Rrb (do x <- r1; k1 x) (do x <- r2; k2 x).
Proof. intros Hr Hk. destruct r1, r2; cbn in *; try contradiction; auto. Qed.

Definition Rrl (r1 r2 : res (list builder)) : Prop :=
  match r1, r2 with Ok l, Ok l' => Rl l l' | Err e, Err e' => e = e' | _, _ => False end.

Lemma Rrl_mapMs (f f' : builder -> res builder) cs cs' :
  Rl cs cs' -> (forall x y, R x y -> In x cs -> Rrb (f x) (f' y)) -> Rrl (mapMs f cs) (mapMs f' cs').
Proof.
  induction 1 as [|x y t u Hxy _ IH]; intro Hf; cbn [mapMs]; [constructor|].
  pose proof (Hf x y Hxy (or_introl eq_refl)) as G. destruct (f x), (f' y); cbn in *; try contradiction; auto.
  assert (Rrl (mapMs f t) (mapMs f' u)) as G2 by (apply IH; intros; apply Hf; auto; now right).
  destruct (mapMs f t), (mapMs f' u); cbn in *; try contradiction; auto. constructor; auto.
Qed.

Lemma Rrg_offsets0 : Rrg (offsets0 o1) (offsets0 o2).
Proof.
  unfold offsets0. pose proof (Rg_empty o1 o2 H1 H2) as G.
  destruct (gb_empty o1), (gb_empty o2); cbn in *; try contradiction; auto. now apply Rg_append.
Qed.

Lemma clear_R b1 : forall b2, R b1 b2 -> Rrb (clear o1 b1) (clear o2 b2).
Proof.
  induction b1 as [n|g|g|g|e a b|idx ct IHc|offs ct begun IHc|cs ks rn np len bg ni ntt IH|cs len bg ni IH|tags idx cs cur IH]
    using builder_ind'; intros b2 HR; destruct b2; try (destruct HR as [[] _]; fail); cbn [clear].
  - cbn. apply R_unknown. reflexivity.
  - apply Rrb_bind_gb; [now apply Rg_clear|]. intros. cbn. now apply R_bool.
  - apply Rrb_bind_gb; [now apply Rg_clear|]. intros. cbn. now apply R_int.
  - apply Rrb_bind_gb; [now apply Rg_clear|]. intros. cbn. now apply R_float.
  - apply R_string in HR. destruct HR as (<- & _).
    apply Rrb_bind_gb; [apply Rrg_offsets0|]. intros x y Hxy. apply Rrb_bind_gb; [now apply Rg_clear|]. intros. cbn. apply R_string. auto.
  - apply R_option in HR. destruct HR as (_ & Hc).
    apply Rrb_bind_gb; [now apply Rg_clear|]. intros x y Hxy. apply Rrb_bind_b; [now apply IHc|]. intros. cbn. apply R_option. auto.
  - apply R_list in HR. destruct HR as (_ & Hc & <-).
    apply Rrb_bind_gb; [apply Rrg_offsets0|]. intros x y Hxy. apply Rrb_bind_b; [now apply IHc|]. intros. cbn. apply R_list. auto.
  - cbn. apply R_record. repeat split; auto. constructor.
  - cbn. apply R_tuple. repeat split; auto. constructor.
  - apply R_union in HR. destruct HR as (_ & _ & Hl & <-).
    apply Rrb_bind_gb; [now apply Rg_clear|]. intros t t' Ht. apply Rrb_bind_gb; [now apply Rg_clear|]. intros i i' Hi.
    assert (Rrl (mapMs (clear o1) cs) (mapMs (clear o2) contents)) as G.
    { apply Rrl_mapMs; [exact Hl|]. intros x y Hxy Hin. rewrite Forall_forall in IH. now apply IH. }
    destruct (mapMs (clear o1) cs), (mapMs (clear o2) contents); cbn in *; try contradiction; auto.
    apply R_union. split; [assumption|split; [assumption|split; [assumption|reflexivity]]].
Qed.

Lemma ab_step_R b1 b2 c : R b1 b2 ->
  R (fst (ab_step o1 b1 c)) (fst (ab_step o2 b2 c)) /\ snd (ab_step o1 b1 c) = snd (ab_step o2 b2 c).
Proof.
  intro HR. unfold ab_step. pose proof (step_R o1 o2 H1 H2 b1 b2 c HR) as G.
  destruct (step o1 b1 c) as [s r|e s], (step o2 b2 c) as [s' r'|e' s']; cbn in *; try contradiction.
  - destruct G as [Hs Hr]. split; [|reflexivity]. now apply R_pick.
  - destruct G as [-> Hs]. auto.
Qed.

Lemma R_snapshot b1 b2 : R b1 b2 -> snapshot b1 = snapshot b2 /\ blen b1 = blen b2.
Proof.
  intro HR. split; [|now apply R_blen]. destruct HR as [S _]. revert b2 S.
  induction b1 as [n|g|g|g|e a b|idx ct IHc|offs ct begun IHc|cs ks rn np len bg ni ntt IH|cs len bg ni IH|tags idx cs cur IH]
    using builder_ind'; intros b2 S; destruct b2; cbn [same] in S; try contradiction.
  - subst. reflexivity.
  - destruct S as [L N]. cbn [snapshot]. unfold numpy1. now rewrite L, N.
  - destruct S as [L N]. cbn [snapshot]. unfold numpy1. now rewrite L, N.
  - destruct S as [L N]. cbn [snapshot]. unfold numpy1. now rewrite L, N.
  - destruct S as (-> & [L1 N1] & [L2 N2]). cbn [snapshot]. unfold numpy1. now rewrite L1, L2, N2.
  - destruct S as ([L N] & S). cbn [snapshot]. now rewrite L, (IHc _ S).
  - destruct S as ([L N] & S & ->). cbn [snapshot]. now rewrite L, (IHc _ S).
  - destruct S as (S & -> & -> & -> & -> & -> & -> & ->). apply all_Forall2 in S.
    assert (mapMs snapshot cs = mapMs snapshot contents /\ List.length cs = List.length contents) as [E L].
    { clear -IH S. induction S as [|x y t u Sxy _ IHS]; [split; reflexivity|]. inversion IH as [|? ? Hx Ht]; subst.
      destruct (IHS Ht) as [E L]. cbn [mapMs List.length]. rewrite (Hx y Sxy), E, L. split; reflexivity. }
    cbn [snapshot]. now rewrite E, L.
  - destruct S as (S & -> & -> & ->). apply all_Forall2 in S.
    assert (mapMs snapshot cs = mapMs snapshot contents) as E.
    { clear -IH S. induction S as [|x y t u Sxy _ IHS]; [reflexivity|]. inversion IH as [|? ? Hx Ht]; subst.
      cbn [mapMs]. now rewrite (Hx y Sxy), (IHS Ht). }
    cbn [snapshot]. now rewrite E.
  - destruct S as ([L1 N1] & [L2 N2] & S & ->). apply all_Forall2 in S.
    assert (mapMs snapshot cs = mapMs snapshot contents) as E.
    { clear -IH S. induction S as [|x y t u Sxy _ IHS]; [reflexivity|]. inversion IH as [|? ? Hx Ht]; subst.
      cbn [mapMs]. now rewrite (Hx y Sxy), (IHS Ht). }
    cbn [snapshot]. now rewrite E, L1, L2.
Qed.

Lemma run_session_R cs : forall b1 b2 pos, R b1 b2 ->
  fst (run_session o1 b1 pos cs) = fst (run_session o2 b2 pos cs) /\
  R (snd (run_session o1 b1 pos cs)) (snd (run_session o2 b2 pos cs)).
Proof.
  induction cs as [|c t IH]; intros b1 b2 pos HR; cbn [run_session]; [split; [reflexivity|exact HR]|].
  destruct c as [c| |].
  - destruct (ab_step_R b1 b2 c HR) as [Hb He].
    destruct (ab_step o1 b1 c) as [b1' e1], (ab_step o2 b2 c) as [b2' e2]. cbn [fst snd] in *. subst e2.
    destruct (IH b1' b2' (S pos) Hb) as [E Rf].
    destruct (run_session o1 b1' (S pos) t), (run_session o2 b2' (S pos) t). cbn [fst snd] in *. subst. split; [reflexivity|exact Rf].
  - destruct (R_snapshot b1 b2 HR) as [Es Eb]. destruct (IH b1 b2 (S pos) HR) as [E Rf].
    destruct (run_session o1 b1 (S pos) t), (run_session o2 b2 (S pos) t). cbn [fst snd] in *. subst. rewrite Es, Eb. split; [reflexivity|exact Rf].
  - pose proof (clear_R b1 b2 HR) as G. destruct (clear o1 b1) as [b1'|e1], (clear o2 b2) as [b2'|e2]; cbn in G; try contradiction.
    + now apply IH.
    + subst e2. destruct (IH b1 b2 (S pos) HR) as [E Rf].
      destruct (run_session o1 b1 (S pos) t), (run_session o2 b2 (S pos) t). cbn [fst snd] in *. subst. split; [reflexivity|exact Rf].
Qed.

(* ================================================================== (e) growth is not observable *)
Theorem growth_irrelevant cs :
  fst (run_session o1 ab_init 0 cs) = fst (run_session o2 ab_init 0 cs).
Proof. apply run_session_R. apply R_unknown. reflexivity. Qed.

End Sessions.

(* non-vacuity: two very different growth policies, a session with records, a tuple, unions, errors, clear *)
Example growth_irrelevant_example :
  let oa := {| initial := 1; grow := fun r => r + 1; junk := 7 |} in
  let ob := {| initial := 1024; grow := fun r => 2 * r; junk := -1 |} in
  let cs := [SC (CBeginRecord None); SC (CField [120]); SC (CInt 1); SC CEndRecord; SSnapshot; SC CEndList;
             SC (CBeginTuple 2); SC (CIndex 0); SC (CReal 2); SC (CIndex 5); SC (CIndex 1); SC CNull; SC CEndTuple;
             SSnapshot; SClear; SC (CStr true [97]); SC (CStr false [98]); SSnapshot] in
  good_opts oa /\ good_opts ob /\
  fst (run_session oa ab_init 0 cs) = fst (run_session ob ab_init 0 cs) /\
  length (fst (run_session oa ab_init 0 cs)) = 5%nat.
Proof. cbv zeta. repeat split; cbn [initial grow]; try lia; try (intros; lia); vm_compute; reflexivity. Qed.
